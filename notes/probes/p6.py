import math, numpy as np, xdeps
from xdeps.tasks import FunctionTask
# C02 cycle termination
m = xdeps.Manager(); d={'a':1,'b':2,'c':3}; r=m.ref(d,'r')
r['b']=r['a']+1
cnt={'n':0}
def act(): cnt['n']+=1; d['a']=d['c']*2
m.register(FunctionTask('cyc', act, targets={r['a']}, dependencies={r['c'], r['b']}))
r['a']=5; print("cycle:", d, cnt)
r['c']=7; print("cycle:", d, cnt)
# C13
m = xdeps.Manager(); s={'a':1,'b':2,'n':{'x':0},'l':[0,0]}; s_=m.ref(s,'s'); f_=m.ref(math,'f')
class O: pass
o=O(); o.p=1.5; o_=m.ref(o,'o')
s_['c']=s_['a']+s_['b']; s_['n']['x']=f_.sin(s_['c'])*o_.p; s_['l'][1]=s_['n']['x']**2; o_.q = s_['l'][1]-s_['a']
print(m.mk_fun('setab', a=s_['a'], p=o_.p))
fn=m.gen_fun('setab', a=s_['a'], p=o_.p); fn(2.0, 3.0); print(s, o.__dict__)
# C14 aliasing
t = xdeps.Table({'name': np.array(['a','b','c']), 'x': np.arange(3.), 'y': np.arange(3.)*2})
t2 = t.rows[0:2]; t2['x']=9; print("view-alias cell:", t.x)
t3 = t.rows[[0,1]]; t3['x']=7; print("fancy no alias:", t.x)
t4 = t.cols['x']; t4['z']=np.zeros(3); print(t._col_names, t4._col_names)
t5 = t._select(None,None); t5['w']=np.ones(3); print("select alias colnames:", t._col_names, 'w' in t._data)
print((t+t)._col_names, len(t+t), len(t*3), len(t), t['x+2*y'], t.cols['x+y']._col_names)
print(t._t)
try: print(xdeps.Table.concatenate([t,t]))
except Exception as e: print("concatenate", type(e).__name__, e)
