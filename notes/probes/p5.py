import numpy as np, xdeps as xd
from xdeps.general import _print
_print.suppress = True
class Act(xd.Action):
    def __init__(s, f, cont, names): s.f=f; s.cont=cont; s.names=names; s.calls=[]
    def run(s):
        x=[s.cont[n] for n in s.names]; s.calls.append(list(x)); return dict(enumerate(s.f(np.array(x,float))))
def prob(f, x0, tars, limits=None, max_step=None, weights=None, tol=1e-8, **kw):
    cont = {f'k{i}': float(v) for i,v in enumerate(x0)}
    names=list(cont)
    act=Act(f,cont,names)
    vary=[xd.Vary(n, cont, limits=None if limits is None else limits[i], step=1e-6,
                  max_step=None if max_step is None else max_step[i], weight=None if weights is None else weights[i]) for i,n in enumerate(names)]
    targets=[act.target(i, v, tol=tol) for i,v in enumerate(tars)]
    return xd.Optimize(vary, targets, **kw), cont, act
# C10 max_step
f=lambda x: np.array([x[0]-10, x[1]-10])
opt,cont,act=prob(f,[0,0],[0,0],max_step=(1,5))
opt.step(1)
print("C10 max_step (1,5):", cont)
opt,cont,act=prob(f,[0,0],[0,0],max_step=(1,None), weights=(2.,1.))
opt.step(1)
print("C10 max_step 1 weight 2:", cont)
# C10 disable_target
opt,cont,act=prob(f,[0,0],[0,0])
try: opt.step(1, disable_target=[0]); print("ok", cont)
except TypeError as e: print("C10 disable_target TypeError", e)
try: opt.step(1, disable_vary=[0]); print("disable_vary ok", cont, [v.active for v in opt.vary])
except Exception as e: print("C10 disable_vary", type(e).__name__, e)
try: opt.step(1, disable_vary_name=['k0']); print("disable_vary_name ok", cont, [v.active for v in opt.vary])
except Exception as e: print("C10 disable_vary_name", type(e).__name__, e)
try: opt.step(1, enable_target=[0]); print("enable_target ok", [t.active for t in opt.targets])
except Exception as e: print("C10 enable_target", type(e).__name__, e)
# limits
opt,cont,act=prob(f,[0,0],[0,0],limits=[(-1,3),(-20,20)])
try: opt.solve()
except Exception as e: print("solve raises", type(e).__name__, e)
print("after fail:", cont, opt.log()['vary'])
# C09 inconsistent
g=lambda x: np.array([x[0]-1, x[0]+1])
opt,cont,act=prob(g,[0.3],[0,0])
try: opt.solve(); print("returned", cont)
except Exception as e: print("C09 inconsistent raises", type(e).__name__, e, cont)
