import numpy as np, xdeps as xd, random, math, sys
from xdeps.general import _print
_print.suppress = True
class LogDict(dict):
    def __init__(s,*a,**k): super().__init__(*a,**k); s.log=[]
    def __setitem__(s,k,v): s.log.append((k,float(v))); dict.__setitem__(s,k,v)
class Act(xd.Action):
    def __init__(s, f, cont, names): s.f=f; s.cont=cont; s.names=names; s.n=0
    def run(s):
        s.n+=1
        x=np.array([s.cont[n] for n in s.names],float); return dict(enumerate(s.f(x)))
def gen(rng):
    n=rng.randint(1,4); m=rng.randint(1,5)
    A=np.array([[rng.uniform(-2,2) for _ in range(n)] for _ in range(m)])
    kind=rng.choice(['lin','quad','trig','incons'])
    xs=np.array([rng.uniform(-1,1) for _ in range(n)])
    if kind=='lin': f=lambda x: A@x
    elif kind=='quad': f=lambda x: A@x+0.3*(A@x)**2
    elif kind=='trig': f=lambda x: np.sin(A@x)+A@x
    else: f=lambda x: np.concatenate([A@x, A@x+1.0]) if True else None
    tars=f(xs) if kind!='incons' else np.zeros(2*m)
    x0=np.array([rng.uniform(-1,1) for _ in range(n)])
    lim=[(-rng.uniform(1,3), rng.uniform(1,3)) if rng.random()<0.7 else None for _ in range(n)]
    ms=[rng.choice([None,0.1,0.5,2.0]) for _ in range(n)]
    return kind,f,x0,tars,lim,ms
def run(seed):
    rng=random.Random(seed)
    kind,f,x0,tars,lim,ms=gen(rng)
    cont=LogDict({f'k{i}':float(v) for i,v in enumerate(x0)}); names=list(cont)
    act=Act(f,cont,names)
    vary=[xd.Vary(nm,cont,limits=lim[i],step=1e-7,max_step=ms[i]) for i,nm in enumerate(names)]
    targets=[act.target(i,float(v),tol=1e-7) for i,v in enumerate(tars)]
    opt=xd.Optimize(vary,targets,n_steps_max=rng.choice([3,10,25]))
    k0=[cont[n] for n in names]
    res='ok'
    try: opt.solve(broyden=rng.choice([False,True,3]))
    except Exception as e: res=type(e).__name__
    kf=[cont[n] for n in names]
    issues=[]
    if res=='ok':
        y=f(np.array(kf)); 
        if not np.all(np.abs(y-tars)<1e-7): issues.append('returned-not-within-tol')
    else:
        if kf!=k0: issues.append(('not-restored',k0,kf))
    lg=opt.log()
    V=np.atleast_2d(lg['vary'])
    for i,l in enumerate(lim):
        if l is not None and (np.any(V[:,i]<l[0]) or np.any(V[:,i]>l[1])): issues.append(('limit',i))
    al=lg['alpha']
    for r_ in range(1,len(V)):
        if al[r_]>=0:
            for i,mx in enumerate(ms):
                if mx is not None and abs(V[r_,i]-V[r_-1,i])>mx*(1+1e-9): issues.append(('maxstep',i,abs(V[r_,i]-V[r_-1,i]),mx))
    # reload rows
    for i in range(len(V)):
        opt.reload(i)
        kk=[cont[n] for n in names]
        if list(V[i])!=kk: issues.append(('reload',i))
        pen=opt.log()['penalty'][-1]
        if not math.isclose(pen, lg['penalty'][i], rel_tol=1e-12, abs_tol=1e-300): issues.append(('pen',i,pen,lg['penalty'][i]))
    return kind,res,issues
from collections import Counter
c=Counter(); bad=[]
for s in range(int(sys.argv[1])):
    try:
        kind,res,issues=run(s)
    except Exception as e:
        c[('EXC',type(e).__name__)]+=1; bad.append((s,repr(e)[:100])); continue
    c[(kind,res)]+=1
    for i in issues: c[('ISSUE',i[0] if isinstance(i,tuple) else i)]+=1
    if issues: bad.append((s,kind,res,issues[:2]))
print(c); print(bad[:12])
