import faulthandler; faulthandler.dump_traceback_later(200, exit=True)
import random, sys, numpy as np
from collections import Counter
from xdeps import Table
NAMES=['a','b','c','ab']
def resolve(names,name,count,offset):
    occ=[i for i,n in enumerate(names) if n==name]
    if count is None: count=0
    if count<0: count+=len(occ)
    if not (0<=count<len(occ)): raise KeyError(name)
    return occ[count]+offset
def split(s):
    off=0
    if '<<' in s: s,o=s.split('<<',1); off-=int(o)
    elif '>>' in s: s,o=s.split('>>',1); off+=int(o)
    cnt=None
    if '::' in s: s,c_=s.split('::',1); cnt=int(c_)
    return s,cnt,off
def ref_row(names,row):
    if isinstance(row,str): return resolve(names,*split(row))
    n,c_,*o=row; return resolve(names,n,c_,o[0] if o else 0)
c=Counter(); ex={}
for seed in range(int(sys.argv[1])):
    rng=random.Random(seed); n=rng.randrange(1,7)
    t=Table({'name':np.array([rng.choice(NAMES) for _ in range(n)],dtype=object),'x':np.arange(n,dtype=float)})
    warm=False; last=None
    for step in range(12):
        n=len(t); names=list(t._data['name'])
        op=rng.choice(['look','look','look','setidxcol','setidxattr','cellpos','cellname','celltuple','othercell','newcol','delcol','append'])
        if op=='look':
            nm=rng.choice(NAMES+['zz']); cnt=rng.choice([None,0,1,-1,2,-3]); off=rng.choice([0,0,1,-1])
            form=rng.choice(['str','tuple','getitem_str','getitem_tuple','floordiv'])
            s=nm+('' if cnt is None else f'::{cnt}')+('' if off==0 else (f'>>{off}' if off>0 else f'<<{-off}'))
            tup=(nm,0 if cnt is None else cnt)+((off,) if off else ())
            try: exp=('v',resolve(names,nm,cnt,off))
            except KeyError: exp=('e','KeyError')
            if exp[0]=='v' and not (0<=exp[1]<n): continue
            try:
                if form=='str': got=('v',int(t.rows.get_index(s)))
                elif form=='tuple': got=('v',int(t.rows.get_index(tup)))
                elif form=='floordiv': got=('v',int(t//s))
                elif form=='getitem_str': got=('v',int(t['x',s]))   # x holds row number? only if not permuted
                else: got=('v',int(t['x',tup]))
            except Exception as e: got=('e',type(e).__name__)
            if form.startswith('getitem') and got[0]=='v': got=('v', got[1])
            ok=(exp==got)
            k=('look',form,'ok' if ok else 'BAD', last if not ok else '')
            c[k]+=1
            if not ok: ex.setdefault(k,(seed,step,names,s,exp,got))
            warm=True
        else:
            try:
                if op=='setidxcol': t['name']=np.array([rng.choice(NAMES) for _ in range(n)],dtype=object)
                elif op=='setidxattr': t.name=np.array([rng.choice(NAMES) for _ in range(n)],dtype=object)
                elif op=='cellpos': t['name',rng.randrange(n)]=rng.choice(NAMES)
                elif op=='cellname':
                    nm=rng.choice(names); t['name',nm]=rng.choice(NAMES)
                elif op=='celltuple':
                    nm=rng.choice(names); t['name',(nm,0)]=rng.choice(NAMES)
                elif op=='othercell': i_=rng.randrange(n); t['x',i_]=t['x',i_]*1.0
                elif op=='newcol': t['w%d'%step]=np.zeros(n)
                elif op=='delcol':
                    ws=[k_ for k_ in t._col_names if k_.startswith('w')]
                    if ws: del t[ws[0]]
                elif op=='append': t._append_row({k_:(rng.choice(NAMES) if k_=='name' else (float(n) if k_=='x' else 0.0)) for k_ in t._col_names})
                last=op if warm else last
            except Exception as e:
                k=('mut-exc',op,type(e).__name__); c[k]+=1; ex.setdefault(k,(seed,step,names))
for k,v in sorted(c.items(),key=lambda kv:str(kv[0])): print(v,k,ex.get(k) if 'BAD' in k or k[0]=='mut-exc' else '')
