import numpy as np, xdeps
from xdeps import Table
def mk():
    return Table({'name': np.array(['ip1','ip2','ip2','ip3','tab$end']), 'betx': np.arange(5.)+1, 's': np.array([0.,1,2,3,4])})
t = mk()
print("get ip3:", t['betx','ip3'])
t['name', 3] = 'foo'
try: print("C07 foo:", t['betx','foo'])
except Exception as e: print("C07 foo raises", type(e).__name__, e)
try: print("C07 ip3 (renamed):", t['betx','ip3'])
except Exception as e: print("ip3 raises", type(e).__name__)
t = mk(); t.rows.get_index('ip2::1'); t._append_row({'name':'new','betx':9.,'s':5.})
try: print("append new:", t['betx','new'], len(t))
except Exception as e: print("C07 _append_row stale:", type(e).__name__, e)
t = mk(); t.rows.get_index('ip2::1'); t['name']=np.array(['a','b','c','d','e'],dtype=object); print("col assign:", t.rows.get_index('c'))
t = mk(); t.rows.get_index('ip2::1'); t.name=np.array(['a','b','c','d','e'],dtype=object); print("attr assign:", t.rows.get_index('c'))
t = mk(); print(t.cols.get_index_unique()); print(t // 'ip2::-1', t//('ip2',1), t//('ip2',-1,1), t//'ip2::1>>1', t//'ip2<<1')
# C08
t = mk()
for sel in [slice(1.5,None,'s'), slice(None,2.5,'s'), slice(1.,2.,'s')]:
    try: print("C08", sel, t.rows[sel].name)
    except Exception as e: print("C08", sel, "raises", type(e).__name__, e)
for sel in ['ip.*::-1', 'ip.*::1', 'ip.*::0', 'ip.*::0>>1', 'IP2', 'ip2::1']:
    try: print("C08", sel, t.rows.indices[sel])
    except Exception as e: print("C08", sel, "raises", type(e).__name__, e)
print(t.rows['ip1':'ip2::1'].name, t.rows['ip2':'ip3':'name'].name)
print(t.rows.indices[1:3, 0], t.rows[1:3].rows[0].name, t.rows[1:3,0].name)
print(t.rows.mask['ip2'])
# empty
print(len(t.rows['zzz']), t.rows['zzz']._col_names)
try:
    e = t.rows['zzz']; print(e.rows.indices['ip.*'], len(e), e.cols['betx'])
except Exception as ex: print("empty raises", type(ex).__name__, ex)
