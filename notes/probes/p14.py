import random, sys, xdeps, xdeps.tasks as T, xdeps.sorting as S
from collections import Counter
runs=[]
orig_run=T.ExprTask.run
def traced(self):
    runs.append(self.taskid); return orig_run(self)
T.ExprTask.run=traced
rngS=random.Random(1)
orig_topo=S.toposort
def topo(graph,start=None):
    if start is not None:
        start=list(start); rngS.shuffle(start)
    return orig_topo(graph,start)
T.toposort=topo
def ancestors(ref):
    out=[ref]; o=ref._owner
    while hasattr(o,'_owner') and type(o).__name__!='Ref':
        out.append(o); o=o._owner
    return out
def expected(m, ref):
    trig=set(ancestors(ref))
    tasks=m.tasks
    S_={tid for tid,t in tasks.items() if t.dependencies & trig}
    ch=True
    while ch:
        ch=False
        for tid,t in tasks.items():
            if tid in S_: continue
            for u in list(S_):
                if tasks[u].targets & t.dependencies: S_.add(tid); ch=True; break
    return S_
c=Counter()
for seed in range(int(sys.argv[1])):
    rng=random.Random(seed)
    m=xdeps.Manager(); d={f'v{i}':float(i) for i in range(6)}; d['n']={f'x{i}':float(i) for i in range(4)}; d['l']=[0.,1.,2.]
    r=m.ref(d,'r')
    locs=[r[f'v{i}'] for i in range(6)]+[r['n'][f'x{i}'] for i in range(4)]+[r['l'][i] for i in range(3)]
    order=list(range(len(locs))); rng.shuffle(order)  # dag order
    rank={i:k for k,i in enumerate(order)}
    defs=[i for i in range(len(locs)) if rng.random()<0.6 and rank[i]>0]
    rng.shuffle(defs)
    for i in defs:
        srcs=[j for j in range(len(locs)) if rank[j]<rank[i]]
        a=rng.choice(srcs); b=rng.choice(srcs)
        m.set_value(locs[i], locs[a]*2+locs[b])
    for _ in range(5):
        i=rng.choice([j for j in range(len(locs)) if locs[j] not in m.tasks])
        exp=expected(m,locs[i])
        runs.clear(); m.set_value(locs[i], rng.uniform(-1,1))
        got=Counter(runs)
        if set(got)!=exp: c['set-mismatch']+=1; print("MISMATCH", seed, locs[i], set(got)^exp)
        elif any(v!=1 for v in got.values()): c['multi']+=1
        else: c['ok']+=1
print(c)
