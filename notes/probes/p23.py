import faulthandler; faulthandler.dump_traceback_later(100, exit=True)
import math, random, sys, xdeps
from collections import Counter
from xdeps.madxutils import MadxEnv
env=MadxEnv()
VARS=['a','b.c','k%1','x_1','.p']
env._variables.update({'a':2.0,'b.c':-4.0,'k%1':3.0,'x_1':0.5,'.p':0.0})
env._elements['el']={'a':1.5,'b':2.5}; env._elements['q.1']={'k1':-0.25}
NUMS=['12','1.','.5','1e3','1.e-3','.5E+2','0','2','3.25','0.0']
F1=['sin','cos','exp','sqrt','fabs','atan']; F2=['atan2','hypot','pow','fmod']
def sp(rng): return rng.choice(['',' ','  '])
def gen(rng,d,paren):
    # returns (string, mirror) ; mirror = python lambda-free tuple tree
    if d==0 or rng.random()<0.2:
        k=rng.random()
        if k<0.35: n=rng.choice(NUMS); return n,('num',float(n))
        if k<0.7: v=rng.choice(VARS); return v,('var',v)
        e,a=rng.choice([('el','a'),('el','b'),('q.1','k1')]); return f"{e}->{a}",('el',e,a)
    k=rng.random()
    if k<0.5:
        o=rng.choice(['+','-','*','/','^','**'])
        s1,m1=gen(rng,d-1,paren); s2,m2=gen(rng,d-1,paren)
        s=f"{s1}{sp(rng)}{o}{sp(rng)}{s2}"
        if paren: s=f"({s})"
        return s,('bin',o,m1,m2)
    if k<0.65:
        o=rng.choice(['-','+']); s1,m1=gen(rng,d-1,paren)
        s=f"{o}{sp(rng)}{s1}"
        if paren: s=f"({s})"
        return s,('un',o,m1)
    if k<0.8:
        f=rng.choice(F1); s1,m1=gen(rng,d-1,paren); return f"{f}({s1})",('call',f,m1)
    if k<0.9:
        f=rng.choice(F2); s1,m1=gen(rng,d-1,paren); s2,m2=gen(rng,d-1,paren); return f"{f}({s1},{sp(rng)}{s2})",('call',f,m1,m2)
    s1,m1=gen(rng,d-1,paren); return f"({s1})",m1
def hasvar(m):
    if m[0] in('var','el','call'): return True
    if m[0]=='num': return False
    return any(hasvar(x) for x in m[2:]) if m[0]=='bin' else hasvar(m[2])
def ev(m, deferred):
    t=m[0]
    if t=='num': return m[1]
    if t=='var': return env._variables[m[1]]
    if t=='el': return env._elements[m[1]][m[2]]
    if t=='un': v=ev(m[2],deferred); return -v if m[1]=='-' else +v
    if t=='call': return getattr(math,m[1])(*[ev(x,deferred) for x in m[2:]])
    a=ev(m[2],deferred); b=ev(m[3],deferred); o=m[1]
    if o=='+': return a+b
    if o=='-': return a-b
    if o=='*': return a*b
    if o=='/':
        try: return a/b
        except ZeroDivisionError:
            if deferred and hasvar(m): return float('nan')
            raise
    return a**b
def run(f):
    try:
        v=f(); return ('v', v)
    except Exception as e: return ('e',type(e).__name__)
def same(x,y):
    if x[0]!=y[0]: return False
    if x[0]=='e': return x[1]==y[1]
    a,b=x[1],y[1]
    if type(a)!=type(b): return False
    return a==b or (a!=a and b!=b)
c=Counter(); rng=random.Random(int(sys.argv[1])); shown=0
for i in range(int(sys.argv[2])):
    s,m=gen(rng,rng.randint(1,5),True)
    for rnd in range(2):
        imm=run(lambda: env.madeval(s))
        def dd():
            e=env.madexpr(s); return e._get_value() if hasattr(e,'_get_value') else e
        de=run(dd)
        pyi=run(lambda: ev(m,False)); pyd=run(lambda: ev(m,True))
        ok1=same(imm,pyi); ok2=same(de,pyd)
        c[('imm',ok1)]+=1; c[('def',ok2)]+=1
        if imm!=de and not same(imm,de): c['imm!=def (allowed NaN dev)' if (imm==('e','ZeroDivisionError')) else 'imm!=def OTHER']+=1
        if not (ok1 and ok2) and shown<6: shown+=1; print(repr(s),imm,de,pyi,pyd)
        v=rng.choice(VARS); env._vref[v]=rng.choice([0.0,1.0,-2.5,3.0,0.5])
print(c)
