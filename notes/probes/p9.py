import math, xdeps
from xdeps.madxutils import MadxEnv, MadxEval
env = MadxEnv()
env._variables.update({'a':2.0,'b.c':4.0,'k%1':3.0})
env._elements['el']={'a':1.5,'b':2.5}
for s in ['.5', '1.', '1.e3', '.5E+2', '1e3', '12', '-2^2', '2^-2', '2^3^2', '2**3**2', '-a^2', 'a*-b.c', 'el->a*el->b', 'sin(a)^2', 'atan2(a, b.c)', '1/0', '(a-2)/0*0+1','k%1+1', 'a - - a', '+-+a', '2 ^ - 3 ^ 2', 'pow(a,2)', '1/(a-2)']:
    try: imm = env.madeval(s)
    except Exception as e: imm = f"{type(e).__name__}"
    try:
        ex = env.madexpr(s); dv = ex._get_value() if hasattr(ex,'_get_value') else ('plain', ex)
    except Exception as e: ex=None; dv = f"{type(e).__name__}: {e}"
    print(f"{s!r:18} imm={imm!r:28} def={dv!r:28} expr={ex!r}")
env._vref['a']=3.0
print(env.madexpr('a*2')._get_value(), env.madeval('a*2'))
env._vref['z']=env.madexpr('a*2+el->a'); env._vref['a']=5.0; print(env._variables['z'])
