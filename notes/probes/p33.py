import faulthandler; faulthandler.dump_traceback_later(250, exit=True)
import numpy as np, xdeps as xd, random, math, sys, warnings
from collections import Counter
from xdeps.general import _print
_print.suppress = True; warnings.simplefilter('ignore')
class LogDict(dict):
    def __init__(s,*a,**k): super().__init__(*a,**k); s.log=[]; s.vary=None
    def __setitem__(s,k,v):
        act = None if s.vary is None else bool(s.vary[k].active)
        s.log.append((k,float(v),act,float(s.get(k,float('nan'))))); dict.__setitem__(s,k,v)
class Act(xd.Action):
    def __init__(s, f, cont, names): s.f=f; s.cont=cont; s.names=names
    def run(s): return dict(enumerate(s.f(np.array([s.cont[n] for n in s.names],float))))
def gen(rng, garbage=None):
    n=rng.randint(1,4); mt=rng.randint(1,5)
    A=np.array([[rng.uniform(-2,2) for _ in range(n)] for _ in range(mt)])
    kind=rng.choice(['lin','quad','trig'])
    xs=np.array([rng.uniform(-3,3) for _ in range(n)])
    base={'lin':lambda x:A@x,'quad':lambda x:A@x+0.3*(A@x)**2,'trig':lambda x:np.sin(A@x)+A@x}[kind]
    tars=base(xs)
    x0=np.array([rng.uniform(-1,1) for _ in range(n)])
    lim=[(-rng.uniform(1,3), rng.uniform(1,3)) if rng.random()<0.7 else None for _ in range(n)]
    ms=[rng.choice([None,0.1,0.5,2.0]) for _ in range(n)]
    w=[rng.choice([1.0,1.0,0.25,3.0]) for _ in range(n)]
    dis_v=[rng.random()<0.25 for _ in range(n)]
    if all(dis_v): dis_v[0]=False
    dis_t=[rng.random()<0.25 for _ in range(mt)]
    if all(dis_t): dis_t[0]=False
    return dict(n=n,m=mt,base=base,tars=tars,x0=x0,lim=lim,ms=ms,w=w,dis_v=dis_v,dis_t=dis_t,nsteps=rng.choice([1,2,4]),broyden=rng.choice([False,True]),percall=rng.random()<0.5)
def run(P, garbage):
    def f(x):
        y=np.array(P['base'](x),float)
        if garbage is not None:
            for i,dt in enumerate(P['dis_t']):
                if dt: y[i]=garbage*(1+i)+np.sum(x)*7
        return y
    cont=LogDict({f'k{i}':float(v) for i,v in enumerate(P['x0'])}); names=list(cont)
    act=Act(f,cont,names)
    vary=[xd.Vary(nm,cont,limits=P['lim'][i],step=1e-7,max_step=P['ms'][i],weight=P['w'][i]) for i,nm in enumerate(names)]
    cont.vary={v.name:v for v in vary}
    targets=[act.target(i,float(v),tol=1e-7) for i,v in enumerate(P['tars'])]
    opt=xd.Optimize(vary,targets,n_steps_max=5)
    issues=[]
    dv=[i for i,x in enumerate(P['dis_v']) if x]; dt=[i for i,x in enumerate(P['dis_t']) if x]
    kw={}
    if P['percall']:
        if dv: kw['disable_vary_name']=[f'k{i}' for i in dv]
        if dt: kw['disable_target']=dt
    else:
        if dv: opt.disable(vary_name=[f'k{i}' for i in dv])
        if dt: opt.disable(target=dt)
    cont.log.clear()
    k_before=[cont[n] for n in names]
    try: opt.step(P['nsteps'], broyden=P['broyden'], **kw); res='ok'
    except Exception as e: res=type(e).__name__
    # disabled knobs never changed
    for (k,v,act_,old) in cont.log:
        if act_ is False and v!=old: issues.append(('disabled-written',k))
    for i in dv:
        if cont[names[i]]!=k_before[i]: issues.append(('disabled-changed',i))
    if P['percall'] and res=='ok':
        if not all(bool(v.active) for v in vary) or not all(bool(t.active) for t in targets): issues.append(('flags-not-restored',))
    lg=opt.log(); V=np.atleast_2d(lg['vary'])
    for i,l in enumerate(P['lim']):
        if l is not None:
            tolx=8*np.finfo(float).eps*max(abs(l[0]),abs(l[1])) if P['w'][i]!=1 else 0
            if np.any(V[:,i]<l[0]-tolx) or np.any(V[:,i]>l[1]+tolx): issues.append(('limit',i))
    al=lg['alpha']
    for r_ in range(1,len(V)):
        if al[r_]>=0:
            for i,mx in enumerate(P['ms']):
                if mx is not None and abs(V[r_,i]-V[r_-1,i])>mx*(1+1e-9): issues.append(('maxstep',i))
    # take_best
    if res=='ok':
        tags=list(lg['tag']); pen=lg['penalty']
        # rows of this call: after the last '' tag start... simply: start = index of first row after construction rows (row0)
        within = opt._err.last_point_within_tol
        if not within:
            start=1  # row 1 is the tag() at start of step
            if not math.isclose(pen[-1], min(pen[start:]), rel_tol=1e-12, abs_tol=0): issues.append(('take_best',float(pen[-1]),float(min(pen[start:]))))
    return [tuple(x[1:3]) for x in cont.log], res, issues
c=Counter(); ex={}
for s in range(int(sys.argv[1])):
    rng=random.Random(s); P=gen(rng)
    try:
        t1,res1,iss=run(P,None); t2,res2,_=run(P,1234.5)
    except Exception as e:
        k=('EXC',type(e).__name__,str(e)[:60]); c[k]+=1; ex.setdefault(k,s); continue
    c[('res',res1)]+=1
    if t1!=t2 or res1!=res2: iss.append(('twin-differs',res1,res2))
    for i in iss:
        c[('ISSUE',i[0])]+=1; ex.setdefault(('ISSUE',i[0]),(s,i))
for k,v in sorted(c.items(),key=str): print(v,k,ex.get(k,''))
