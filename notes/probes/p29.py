import faulthandler; faulthandler.dump_traceback_later(150, exit=True)
import random, sys, copy, xdeps, xdeps.tasks as T
from collections import Counter
# C03 prototype: index-support invariant + fresh twin, random histories w/ layered worlds
def derive(m):
    dept={}; tart={}; rdeps={}; rtasks={}
    ts=m.tasks
    for tid,t in ts.items():
        for d in t.dependencies:
            dept.setdefault(d,set()).add(tid)
            for x in t.targets: rdeps.setdefault(d,set()).add(x)
        for x in t.targets: tart.setdefault(x,set()).add(tid)
    for a,ta in ts.items():
        for b,tb in ts.items():
            if ta.targets & tb.dependencies: rtasks.setdefault(a,set()).add(b)
    return dict(rdeps=rdeps,rtasks=rtasks,deptasks=dept,tartasks=tart)
def support(m):
    return {n:{k:set(v) for k,v in getattr(m,n).items() if len(v)} for n in ('rdeps','rtasks','deptasks','tartasks')}
class O:
    def __eq__(s,o): return type(o) is O and s.__dict__==o.__dict__
def world():
    o=O(); o.p=1.5; o.q=-2.0
    return {'v0':1.0,'v1':2.0,'v2':-1.0,'n':{'x':0.5,'y':4.0,'z':1.0},'l':[1.0,2.5,3.0],'o':o,'t1':0.,'t2':0.,'t3':0.}
def locs(r):
    # layers: 0 leaves; 1 t1; 2 n.*; 3 t2; 4 l[*]; 5 o.*; 6 t3
    return [[r['v0'],r['v1'],r['v2']],[r['t1']],[r['n']['x'],r['n']['y'],r['n']['z']],[r['t2']],[r['l'][0],r['l'][1],r['l'][2]],[r['o'].p,r['o'].q],[r['t3']]]
c=Counter(); ex={}
for seed in range(int(sys.argv[1])):
    rng=random.Random(seed)
    m=xdeps.Manager(); d=world(); r=m.ref(d,'r'); L=locs(r)
    flat=[(li,x) for li,l in enumerate(L) for x in l]
    hist=[]
    for step in range(rng.randrange(5,25)):
        k=rng.random()
        li,t=rng.choice(flat[3:])
        try:
            if k<0.55:
                lower=[x for lj,x in flat if lj<li]
                a=rng.choice(lower); b=rng.choice(lower)
                e=rng.choice([lambda:a+b, lambda:a*2-b, lambda:a-b*0.5, lambda:abs(a)+b])()
                m.set_value(t,e); hist.append(('expr',str(t),str(e)))
            elif k<0.7:
                m.set_value(t, rng.uniform(-2,2)); hist.append(('val',str(t)))
            elif k<0.85:
                if t in m.tasks: m.unregister(t); hist.append(('unreg',str(t)))
            elif k<0.9: m.refresh(); hist.append(('refresh',))
            elif k<0.95: m.cleanup(); hist.append(('cleanup',))
            else:
                li0,t0=rng.choice(flat[:3]); m.set_value(t0, rng.uniform(-2,2)); hist.append(('leaf',str(t0)))
        except Exception as e:
            kx=('exc',type(e).__name__,hist[-1][0] if hist else None); c[kx]+=1; ex.setdefault(kx,(seed,step,hist[-3:])); break
        sup=support(m); der=derive(m)
        bad=[n for n in sup if sup[n]!=der[n]]
        if bad: kx=('index',tuple(bad),hist[-1][0]); c[kx]+=1; ex.setdefault(kx,(seed,step,hist[-3:])); break
        try: m.verify()
        except Exception as e: kx=('verify',hist[-1][0]); c[kx]+=1; ex.setdefault(kx,(seed,step)); break
    else:
        # fresh twin
        m2=xdeps.Manager(); d2=copy.deepcopy(d); r2=m2.ref(d2,'r')
        m2.load(m.dump())
        for li0,t0 in flat[:3]:
            v=rng.uniform(-2,2)
            m.set_value(t0,v); m2.set_value(eval(str(t0),{},{'r':r2}),v)
        if repr(sorted(map(repr,[d['n'],d['l'],d['o'].__dict__,d['t1'],d['t2'],d['t3']])))!=repr(sorted(map(repr,[d2['n'],d2['l'],d2['o'].__dict__,d2['t1'],d2['t2'],d2['t3']]))): c['twin-diverge']+=1; ex.setdefault('twin-diverge',(seed,))
        else: c['ok']+=1
for k,v in c.items(): print(v,k,ex.get(k))
