import numpy as np, xdeps
from xdeps.tasks import LinearKnob
from xdeps import Table
# KF3? LinearKnob partial failure
class Bomb(list):
    arm=None
    def __setitem__(self,i,v):
        if Bomb.arm is not None and i==Bomb.arm: raise RuntimeError("boom")
        list.__setitem__(self,i,v)
m=xdeps.Manager(); d={'src':10.,'tar':Bomb([0.,0.,0.])}; r=m.ref(d,'r')
lk=LinearKnob('lk', r['src'], [1.,2.,3.], [r['tar'][i] for i in range(3)]); m.register(lk)
Bomb.arm=1
try: r['src']=11.
except RuntimeError: print("raised", d['tar'])
Bomb.arm=None
r['src']=11.; print("after repeat:", d['tar'], "expected [1,2,3]")
# C08 case variants literal fast path
t=Table({'name':np.array(['a','A','b','a','A']), 'x':np.arange(5.)})
print("a::0 ->", t.rows.indices['a::0'], " regex-semantics would be [0,1]")
print("a ->", t.rows.indices['a'], "a::1 ->", t.rows.indices['a::1'], "[aA]::1 ->", t.rows.indices['[aA]::1'])
print("a|b::0", t.rows.indices['a|b::0'])
