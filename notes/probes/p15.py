import faulthandler; faulthandler.dump_traceback_later(40, exit=True)
import math, operator, itertools, sys, numpy as np, xdeps, xdeps.refs as R
from collections import Counter
m=xdeps.Manager()
class O: pass
o=O()
d={'a':None,'b':None,'n':{'x':None},'l':[None,None],'o':o,'k':'a'}
r=m.ref(d,'r')
BIN=[operator.add,operator.sub,operator.mul,operator.truediv,operator.floordiv,operator.mod,operator.pow,operator.and_,operator.or_,operator.xor,operator.lt,operator.le,operator.ge,operator.gt,operator.rshift,operator.lshift,operator.matmul]
VALS=[0,1,-1,2,7,-13,3.5,-0.0,0.0,1e308,float('inf'),float('nan'),True,False,2+1j,np.float64(2.5),np.int64(3),np.array([1.,2.]),np.array([[1,2],[3,4]])]
def same(a,b):
    if type(a)!=type(b): return False
    if isinstance(a,np.ndarray): return a.shape==b.shape and a.dtype==b.dtype and np.array_equal(a,b,equal_nan=True) if a.dtype.kind in 'fc' else np.array_equal(a,b)
    if isinstance(a,tuple): return len(a)==len(b) and all(same(x,y) for x,y in zip(a,b))
    try:
        if a!=a and b!=b: return True
    except Exception: pass
    r_=(a==b)
    return bool(r_) and (not isinstance(a,float) or math.copysign(1,a)==math.copysign(1,b))
c=Counter(); bad=[]
import warnings; warnings.simplefilter('ignore')
def py(op,x,y,guard):
    try: return ('v',op(x,y))
    except ZeroDivisionError as e:
        if guard: return ('v',float('nan'))
        return ('e',type(e))
    except Exception as e: return ('e',type(e))
def df(e):
    try: return ('v',e._get_value())
    except Exception as ex: return ('e',type(ex))
locs=[('a',lambda:r['a']),('nx',lambda:r['n']['x']),('l1',lambda:r['l'][1]),('op',lambda:r['o'].p)]
def setloc(name,v):
    if name=='a': d['a']=v
    elif name=='nx': d['n']['x']=v
    elif name=='l1': d['l'][1]=v
    else: o.p=v
for op in BIN:
    guard=op in (operator.truediv,operator.floordiv,operator.mod)
    for x,y in itertools.product(VALS,VALS):
        for form in ('rr','rl','lr'):
            if form=='lr' and isinstance(x,(np.generic,np.ndarray)): continue
            try:
                if form=='rr':
                    setloc('a',x); setloc('nx',y); e=op(r['a'],r['n']['x'])
                elif form=='rl':
                    setloc('l1',x)
                    try: hash(y)
                    except TypeError: continue
                    e=op(r['l'][1],y)
                else:
                    setloc('op',y)
                    try: hash(x)
                    except TypeError: continue
                    e=op(x,r['o'].p)
            except Exception as ex:
                c['build-exc']+=1; bad.append(('build',op.__name__,form,repr(x),repr(y),repr(ex)[:60])); continue
            if not isinstance(e,R.BaseRef): c['notref']+=1; bad.append(('notref',op.__name__,form,repr(x),repr(y))); continue
            open('/dev/shm/probe/last.txt','w').write(repr((op.__name__,form,x,y)))
            a=py(op,x,y,guard); b=df(e)
            ok = a[0]==b[0] and (same(a[1],b[1]) if a[0]=='v' else a[1]==b[1])
            c['ok' if ok else 'BAD']+=1
            if not ok: bad.append((op.__name__,form,repr(x),repr(y),a,b))
print(c); 
seen=set()
for b in bad:
    k=(b[0],b[1])
    if k in seen: continue
    seen.add(k); print(b)
