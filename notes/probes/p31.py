import faulthandler; faulthandler.dump_traceback_later(250, exit=True)
import random, sys, math, hashlib, json, operator as op, xdeps, xdeps.refs as R
class O: pass
def world():
    o=O(); o.p=1.5; o.q=-2.0; o.s=0.25
    return {'v0':1.0,'v1':2,'v2':-1.0,'v3':True,'n':{'x':0.5,'y':4,'z':1.0},'l':[1.0,2.5,3],'o':o,'t1':0.0,'t2':0,'t3':0.0}
PATHS=[('v0',),('v1',),('v2',),('v3',),('t1',),('t2',),('t3',),('n','x'),('n','y'),('n','z'),('l',0),('l',1),('l',2),('o','.p'),('o','.q'),('o','.s')]
LAY={('v0',):0,('v1',):0,('v2',):0,('v3',):0,('t1',):1,('n','x'):2,('n','y'):2,('n','z'):2,('t2',):3,('l',0):4,('l',1):4,('l',2):4,('o','.p'):5,('o','.q'):5,('o','.s'):5,('t3',):6}
def mkref(r,p):
    x=r[p[0]]
    for k in p[1:]: x = getattr(x,k[1:]) if isinstance(k,str) and k.startswith('.') else x[k]
    return x
BIN=[op.add,op.sub,op.mul,op.truediv,op.floordiv,op.mod,op.pow,op.lt,op.ge]
def canon(v):
    if isinstance(v,float):
        if v!=v: return 'f:nan'
        if v==0: return 'f:0'
        return 'f:'+v.hex()
    if isinstance(v,complex): return 'c:'+repr(v)
    return type(v).__name__+':'+repr(v)
def flat(d):
    out={}
    for k,v in d.items():
        if isinstance(v,dict):
            for k2,v2 in v.items(): out[f'{k}.{k2}']=canon(v2)
        elif isinstance(v,list):
            for i,v2 in enumerate(v): out[f'{k}[{i}]']=canon(v2)
        elif isinstance(v,O):
            for k2,v2 in v.__dict__.items(): out[f'{k}.{k2}']=canon(v2)
        else: out[k]=canon(v)
    return dict(sorted(out.items()))
out=[]
for seed in range(int(sys.argv[1])):
    rng=random.Random(seed)
    m=xdeps.Manager(); d=world(); r=m.ref(d,'r'); tr=[]
    def gen(t,depth):
        cand=[p for p in PATHS if LAY[p]<LAY[t]]
        if depth==0 or rng.random()<0.3: return mkref(r,rng.choice(cand))
        k=rng.random()
        if k<0.6:
            o_=rng.choice(BIN); a=gen(t,depth-1)
            if o_ is op.pow: return o_(a, rng.choice([2,3,0.5,-1]))
            return o_(a, rng.choice([gen(t,depth-1), 2, -1.5, 0, 3]))
        if k<0.7: return -gen(t,depth-1)
        if k<0.8: return abs(gen(t,depth-1))
        if k<0.9: return rng.choice([2,-3.5,0])-gen(t,depth-1)
        return divmod(gen(t,depth-1), rng.choice([2,0.5]))
    for step in range(rng.randrange(5,20)):
        k=rng.random()
        try:
            if k<0.5:
                t=rng.choice([p for p in PATHS if LAY[p]>0]); m.set_value(mkref(r,t), gen(t,3))
            elif k<0.6:
                t=rng.choice([p for p in PATHS if LAY[p]>0]); m.set_value(mkref(r,t), rng.choice([1,2.5,-3,0.0]))
            elif k<0.7:
                t=rng.choice(PATHS); x=mkref(r,t); x+=rng.choice([1,0.5]); 
                # in-place through parent: emulate r[...] += v
                par=r if len(t)==1 else mkref(r,t[:-1]); kk=t[-1]
                if isinstance(kk,str) and kk.startswith('.'): setattr(par,kk[1:],x)
                else: par[kk]=x
            else:
                t=rng.choice([p for p in PATHS if LAY[p]==0]); m.set_value(mkref(r,t), rng.choice([0,1,-2,0.5,3.25,True,7]))
            tr.append('ok')
        except Exception as e: tr.append('E:'+type(e).__name__)
    try: dm=m.dump()
    except Exception as e: dm='E:'+type(e).__name__
    if any(x.startswith('E:') for x in tr): out.append(None); continue
    out.append(hashlib.sha1(json.dumps([tr,flat(d),dm],sort_keys=True,default=str).encode()).hexdigest()[:12])
print(json.dumps(out))
