import faulthandler; faulthandler.dump_traceback_later(100, exit=True)
import math, builtins, operator as op, itertools, xdeps, xdeps.refs as R
from collections import Counter
m=xdeps.Manager()
class O: pass
o=O(); o.p=1.5
d={'a':2.0,'b':3.0,'c':1,'k':'a','n':{'x':0.5},'l':[1.0,2.0],'o':o}
r=m.ref(d,'r')
class FN:
    def f(self,*a,**k): return sum(a)+sum(k.values())
F=FN(); f=m.ref(F,'f')
def chain(ref):
    out=set(); x=ref
    while isinstance(x,(R.AttrRef,R.ItemRef)):
        out.add(x)
        if isinstance(x._key,R.BaseRef): out|=truth(x._key)
        x=x._owner
    if isinstance(x,R.BaseRef) and not isinstance(x,R.Ref): out|=truth(x)
    return out
def truth(e):
    # independent structural walk using public readonly slots
    if isinstance(e,(R.AttrRef,R.ItemRef)): return chain(e)
    if isinstance(e,R.Ref): return set()
    out=set()
    if isinstance(e,R.BinOpExpr): subs=[e._lhs,e._rhs]
    elif isinstance(e,(R.UnaryOpExpr,)): subs=[e._arg]
    elif isinstance(e,R.LiteralExpr): subs=[]
    elif isinstance(e,R.BuiltinRef): subs=[e._arg,*e._params]
    elif isinstance(e,R.CallRef): subs=[e._func,*e._args,*[v for _,v in e._kwargs]]
    else: raise TypeError(type(e))
    for s in subs:
        if isinstance(s,R.BaseRef): out|=truth(s)
    return out
LEAVES=[lambda:r['a'], lambda:r['n']['x'], lambda:r['l'][1], lambda:r['o'].p, lambda:r[r['k']], lambda:r['l'][r['c']], lambda:r]
def subclasses(c):
    out=[]
    for s in c.__subclasses__(): out.append(s); out+=subclasses(s)
    return out
classes=[c for c in subclasses(R.BaseRef)]
bins=[c for c in classes if issubclass(c,R.BinOpExpr) and c is not R.BinOpExpr]
uns=[c for c in classes if issubclass(c,R.UnaryOpExpr) and c is not R.UnaryOpExpr]
cases=[]
for L in LEAVES:
    for wrap in (lambda x:x, lambda x:x+1, lambda x:-(x*2), lambda x: f.f(x)):
        def leaf(L=L,wrap=wrap):
            try: return wrap(L())
            except Exception: return None
        for c in bins:
            cases.append((c.__name__+'.lhs', lambda c=c,leaf=leaf: c(leaf(),1)))
            cases.append((c.__name__+'.rhs', lambda c=c,leaf=leaf: c(1,leaf())))
        for c in uns: cases.append((c.__name__+'.arg', lambda c=c,leaf=leaf: c(leaf())))
        cases.append(('LiteralExpr', lambda leaf=leaf: R.LiteralExpr(3)))
        for o_ in (builtins.abs, math.floor):
            cases.append(('BuiltinRef.arg', lambda o_=o_,leaf=leaf: R.BuiltinRef(leaf(),o_)))
        cases.append(('BuiltinRef.params', lambda leaf=leaf: R.BuiltinRef(r['b'],builtins.round,(leaf(),))))
        cases.append(('BuiltinRef.arg+params', lambda leaf=leaf: R.BuiltinRef(leaf(),builtins.divmod,(leaf(),))))
        cases.append(('CallRef.func', lambda leaf=leaf: R.CallRef(leaf(),(1,),{})))
        cases.append(('CallRef.args', lambda leaf=leaf: R.CallRef(f.f,(1,leaf()),{})))
        cases.append(('CallRef.kwargs', lambda leaf=leaf: R.CallRef(f.f,(),{'y':leaf()})))
        cases.append(('ItemRef.owner', lambda leaf=leaf: R.ItemRef(leaf(),0,m)))
        cases.append(('ItemRef.key', lambda leaf=leaf: R.ItemRef(r['l'],leaf(),m)))
        cases.append(('AttrRef.owner', lambda leaf=leaf: R.AttrRef(leaf(),'p',m)))
c=Counter(); ex={}
for name,mk in cases:
    try: e=mk()
    except Exception as err: c[('build-exc',name)]+=1; continue
    try: got=e._get_dependencies()
    except Exception as err: k=('deps-exc',name,type(err).__name__); c[k]+=1; ex.setdefault(k,str(e)); continue
    if not isinstance(got,set): k=('not-set',name,type(got).__name__); c[k]+=1; ex.setdefault(k,str(e)); continue
    exp=truth(e)
    if got!=exp: k=('DIFF',name); c[k]+=1; ex.setdefault(k,(str(e),got^exp)); continue
    c['ok']+=1
print(len(classes),'classes;',len(cases),'cases')
for k,v in sorted(c.items(),key=str): print(v,k,ex.get(k,''))
