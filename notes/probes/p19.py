import faulthandler; faulthandler.dump_traceback_later(100, exit=True)
import math, random, sys, pickle, copy, operator as op, xdeps, xdeps.refs as R
from collections import Counter
import p19f as F   # module-level function container (picklable by reference)
class O:
    def __eq__(s,o): return type(o) is O and s.__dict__==o.__dict__
def world():
    o=O(); o.p=1.5; o.q=-2.0
    return {'a':2.0,'b':-3.0,'c':0.5,'n':{'x':0.5,'y':4.0},'l':[1.0,2.5,3.0],'o':o,'k':'a'}
def build(rng):
    m=xdeps.Manager(); d=world(); r=m.ref(d,'r'); f=m.ref(F.FN(),'f')
    leaves=[lambda: r['a'],lambda: r['b'],lambda: r['c'],lambda: r['n']['x'],lambda: r['l'][1],lambda: r['o'].p, lambda: r['l'][r['b']*0+1] if False else r['n'][r['k']*0 + 'x'] if False else r['a']]
    def gen(depth):
        if depth==0 or rng.random()<0.3: return rng.choice(leaves)()
        k=rng.random()
        if k<0.5: return rng.choice([op.add,op.sub,op.mul,op.truediv])(gen(depth-1), rng.choice([gen(depth-1), 2.0, -1.5]))
        if k<0.6: return -gen(depth-1)
        if k<0.7: return abs(gen(depth-1))
        if k<0.8: return round(gen(depth-1), 2)
        if k<0.85: return round(gen(depth-1))
        if k<0.9: return f.f1(gen(depth-1))
        if k<0.95: return f.f2(gen(depth-1), y=gen(0))
        return math.floor(gen(depth-1))
    tg=[('t1',lambda: r['t1']),('t2',lambda: r['n']['t2']),('t3',lambda: r['o'].t3),('t4',lambda: r['l'][2]),('t5',lambda: r['t5'])]
    for name,mk in tg:
        try: m.set_value(mk(), gen(3))
        except (ValueError,OverflowError,ZeroDivisionError): return None,None
    return m,d
def snap(d): return pickle.dumps(d)
c=Counter()
rng=random.Random(int(sys.argv[1]))
for i in range(int(sys.argv[2])):
    m,d=build(rng)
    if m is None: c['gen-skip']+=1; continue
    try: m2=pickle.loads(pickle.dumps(m))
    except Exception as ex: c[('pickle',type(ex).__name__)]+=1; continue
    if m2.dump()!=m.dump(): c['dump-differs']+=1; continue
    try: m2.verify()
    except Exception: c['verify']+=1; continue
    r2=m2.containers['r']; d2=r2._owner; r=m.containers['r']
    ok=True
    for _ in range(6):
        key=rng.choice(['a','b','c']); v=rng.uniform(-3,3)
        before2=copy.deepcopy(d2)
        try: r[key]=v
        except (ValueError,OverflowError,ZeroDivisionError): c['fu-skip']+=1; ok=False; break
        if d2!=before2: c['not-independent']+=1; ok=False; break
        r2[key]=v
        if d!=d2 : c['diverge']+=1; ok=False; print(d,d2); break
    if ok: c['ok']+=1
print(c)
