import sys, xdeps, xdeps.refs as R
print("compiled:", R.is_cythonized(), xdeps.__file__)
class N: pass
# C01 definition order
m = xdeps.Manager()
n = N(); n.y = 0
d = {'a': 1, 'n': n}
r = m.ref(d, 'd')
r['n'].x = r['a']*2
r['n'].z = r['n'].y*3
r['n'].y = r['n'].x+1
r['a'] = 5
print("C01 order:", n.x, n.y, n.z, "expected", 10, 11, 33)
try: m.verify(); print("verify ok")
except Exception as e: print("verify fail", e)
# flat version
m = xdeps.Manager(); d={'a':1,'y':0}; r=m.ref(d,'d')
r['x']=r['a']*2; r['z']=r['y']*3; r['y']=r['x']+1; r['a']=5
print("C01 flat:", d)
# depth
m = xdeps.Manager(); d={'v0':1}; r=m.ref(d,'d')
N_=3000
for i in range(1,N_): r[f'v{i}']=r[f'v{i-1}']+1
try:
    r['v0']=10; print("chain ok", d[f'v{N_-1}'])
except RecursionError as e: print("C01 depth RecursionError")
