import faulthandler; faulthandler.dump_traceback_later(100, exit=True)
import math, random, sys, copy, itertools, operator as op, xdeps
from collections import Counter
import p19f as F
class O:
    def __eq__(s,o): return type(o) is O and s.__dict__==o.__dict__
def build(seed):
    rng=random.Random(seed)
    m=xdeps.Manager(); o=O(); o.p=1.5; o.q=-2.0
    d={'v0':1.0,'v1':2.0,'v2':-1.0,'v3':0.5,'n':{'x':0.5,'y':4.0},'l':[1.0,2.5,3.0],'o':o}
    r=m.ref(d,'r'); f=m.ref(F.FN(),'f')
    leafs=[('v0',r['v0']),('v1',r['v1']),('v2',r['v2']),('v3',r['v3']),('op',r['o'].p)]
    pool=[x[1] for x in leafs]
    tgs=[r['t1'], r['n']['x'], r['l'][1], r['o'].q, r['t2'], r['l'][2], r['t3']]
    for t in tgs:
        a=rng.choice(pool); b=rng.choice(pool)
        e=rng.choice([lambda: a+b*2, lambda: a*b-1, lambda: f.f1(a)+b, lambda: f.f2(a,y=b), lambda: abs(a)-b, lambda: -a+b**2])()
        m.set_value(t,e); pool.append(t)
    return m,d,leafs
def nan_eq(a,b):
    return repr(a)==repr(b) if not isinstance(a,(dict,list,O)) else None
def flat(d):
    out={}
    def rec(p,v):
        if isinstance(v,dict):
            for k,x in v.items(): rec(p+(k,),x)
        elif isinstance(v,list):
            for i,x in enumerate(v): rec(p+(i,),x)
        elif isinstance(v,O):
            for k,x in v.__dict__.items(): rec(p+('.'+k,),x)
        else: out[p]=repr(v)
    rec((),d); return out
c=Counter()
for seed in range(int(sys.argv[1])):
    rng=random.Random(seed*7+1)
    m,d,leafs=build(seed); m2,d2,leafs2=build(seed)
    k=rng.randint(1,3); idx=rng.sample(range(len(leafs)),k)
    kwargs={f'arg{i}':leafs[i][1] for i in idx}
    src=m.mk_fun('setter',**kwargs)
    fn=m.gen_fun('setter',**kwargs)
    vals=[rng.uniform(-3,3) for _ in idx]
    fn(*vals)
    for i,v in zip(idx,vals): m2.set_value(leafs2[i][1], v)
    if flat(d)!=flat(d2): c['MISMATCH']+=1; print(seed, src); print({k:(v,flat(d2)[k]) for k,v in flat(d).items() if flat(d2).get(k)!=v})
    else: c['ok']+=1
    lines=[l.strip() for l in src.splitlines()[1+k:]]
    if len(lines)!=len(set(lines)): c['dup-lines']+=1
print(c)
