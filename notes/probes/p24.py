import faulthandler; faulthandler.dump_traceback_later(100, exit=True)
import random, sys, copy, xdeps
from collections import Counter
class Boom(Exception): pass
LOG=[]; ARM=[None]
class LD(dict):
    def __setitem__(s,k,v):
        if ARM[0] is not None:
            if ARM[0]==0: ARM[0]=None; raise Boom()
            ARM[0]-=1
        LOG.append((id(s),k,repr(v))); dict.__setitem__(s,k,v)
def build(seed):
    rng=random.Random(seed)
    d=LD({f'v{i}':float(i+1) for i in range(5)}); d['n']=LD({'x':0.5,'y':4.0}); d['m']=LD({'p':1.0,'q':2.0})
    mg=xdeps.Manager(); r=mg.ref(d,'r')
    layers=[[r[f'v{i}'] for i in range(5)]+[r['n']['x'],r['m']['p']], [r['t1'],r['t2']], [r['n']['y']], [r['t3']], [r['m']['q']], [r['t4'],r['t5']]]
    pool=list(layers[0])
    for L in layers[1:]:
        new=[]
        for t in L:
            if rng.random()<0.8:
                a=rng.choice(pool); b=rng.choice(pool); mg.set_value(t, rng.choice([a+b, a*2-b, a-b*0.5])); new.append(t)
        pool+=new
    return mg,d,r
def flat(d):
    out={}
    for k,v in d.items():
        if isinstance(v,dict):
            for k2,v2 in v.items(): out[(k,k2)]=repr(v2)
        else: out[k]=repr(v)
    return out
c=Counter()
for seed in range(int(sys.argv[1])):
    rng=random.Random(seed+999)
    key=f'v{rng.randrange(5)}'; val=rng.uniform(-3,3)
    mg,d,r=build(seed); LOG.clear(); mg.set_value(r[key],val); ref=[(k,v) for _,k,v in LOG]; good=flat(d); dump0=mg.dump()
    for k in range(len(ref)+0):
        mg,d,r=build(seed); defs=mg.dump(); LOG.clear(); ARM[0]=k
        try: mg.set_value(r[key],val); c['no-raise']+=1; ARM[0]=None; continue
        except Boom: pass
        ARM[0]=None
        got=[(kk,v) for _,kk,v in LOG]
        if got!=ref[:k]: c['prefix-BAD']+=1
        if mg.dump()!=defs: c['defs-changed']+=1
        try: mg.verify()
        except Exception: c['verify-BAD']+=1
        mg.set_value(r[key],val)
        if flat(d)!=good: c['recover-BAD']+=1
        else: c['ok']+=1
print(c)
