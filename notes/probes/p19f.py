class FN:
    def f1(self, x): return x*2
    def f2(self, x, y=1): return x-y
    def __eq__(s,o): return type(o) is FN
