import faulthandler; faulthandler.dump_traceback_later(150, exit=True)
import random, sys, copy, xdeps, xdeps.tasks as T
from collections import Counter
class O:
    def __eq__(s,o): return type(o) is O and s.__dict__==o.__dict__
def world():
    o=O(); o.p=1.5; o.q=-2.0
    return {'v0':1.0,'v1':2.0,'v2':-1.0,'n':{'x':0.5,'y':4.0},'l':[1.0,2.5],'o':o,'t1':0.,'t2':0.,'t3':0.}
def LOC(r): return [[r['v0'],r['v1'],r['v2']],[r['t1']],[r['n']['x'],r['n']['y']],[r['t2']],[r['l'][0],r['l'][1]],[r['o'].p,r['o'].q],[r['t3']]]
def support(m): return {n:{str(k):sorted(map(str,v)) for k,v in getattr(m,n).items() if len(v)} for n in ('rdeps','rtasks','deptasks','tartasks')}
def snapshot(m,d): return (m.dump(), support(m), copy.deepcopy(d))
c=Counter(); ex={}
for seed in range(int(sys.argv[1])):
    rng=random.Random(seed)
    def build():
        m=xdeps.Manager(); d=world(); r=m.ref(d,'r'); return m,d,r
    m,d,r=build(); m2,d2,r2=build()     # m2 = twin never frozen
    flat=[(li,x) for li,l in enumerate(LOC(r)) for x in l]; flat2=[(li,x) for li,l in enumerate(LOC(r2)) for x in l]
    def defop(idx,kind,arg, mm, fl):
        li,t=fl[idx]
        lower=[x for lj,x in fl if lj<li]
        a=lower[arg[0]%len(lower)] if lower else None; b=lower[arg[1]%len(lower)] if lower else None
        if kind=='expr': mm.set_value(t, a*2-b)
        elif kind=='val': mm.set_value(t, arg[2])
        elif kind=='iadd':
            e = (mm.tasks[t].expr + arg[2]) if t in mm.tasks else (t._get_value()+arg[2]); mm.set_value(t,e)
        elif kind=='unreg':
            mm.unregister(t)
        elif kind=='load': mm.load([(str(t), str(a+b))])
        elif kind=='register': mm.register(T.ExprTask(t,a-b))
    for _ in range(rng.randrange(3,10)):
        idx=rng.randrange(3,len(flat)); arg=(rng.randrange(100),rng.randrange(100),rng.uniform(-2,2))
        kind=rng.choice(['expr','expr','val'])
        defop(idx,kind,arg,m,flat); defop(idx,kind,arg,m2,flat2)
    m.freeze_tree()
    for _ in range(rng.randrange(3,12)):
        idx=rng.randrange(0,len(flat)); arg=(rng.randrange(100),rng.randrange(100),rng.uniform(-2,2))
        kind=rng.choice(['expr','val','iadd','unreg','load','register','refresh','verify','cleanup','clone'])
        li,t=flat[idx]; has=t in m.tasks
        changes = kind in('expr','load','register') and li>0 or (kind in('val','iadd','unreg') and has)
        if kind in('expr','load','register','iadd') and li==0 and not has and kind!='iadd': continue
        if kind=='unreg' and not has: continue
        if kind=='register' and has: continue
        before=snapshot(m,d)
        try:
            if kind in('refresh','verify','cleanup'): getattr(m,kind)()
            elif kind=='clone': m.clone()
            else: defop(idx,kind,arg,m,flat)
            raised=None
        except ValueError as e: raised='ValueError'
        except Exception as e: raised=type(e).__name__
        after=snapshot(m,d)
        if changes:
            if raised!='ValueError': k=('no-ValueError',kind,raised); c[k]+=1; ex.setdefault(k,seed)
            if before!=after: k=('changed-while-frozen',kind); c[k]+=1; ex.setdefault(k,seed)
            else: c['rejected-ok']+=1
        else:
            if raised: k=('unexpected-raise',kind,raised); c[k]+=1; ex.setdefault(k,seed)
            elif kind in('val','iadd'):
                defop(idx,kind,arg,m2,flat2)   # accepted op mirrored on twin
                if after[0]!=before[0] or after[1]!=before[1]: k=('graph-changed-by-value',kind); c[k]+=1; ex.setdefault(k,seed)
                elif d!=d2: k=('value-propagation-differs',kind); c[k]+=1; ex.setdefault(k,seed)
                else: c['value-ok']+=1
            else:
                if before[0]!=after[0] or before[1]!=after[1] or before[2]!=after[2]: k=('changed-by-query',kind); c[k]+=1; ex.setdefault(k,seed)
                else: c['query-ok']+=1
    m.unfreeze_tree()
    for _ in range(5):
        idx=rng.randrange(0,len(flat)); arg=(rng.randrange(100),rng.randrange(100),rng.uniform(-2,2)); kind=rng.choice(['expr','val']) if idx>=3 else 'val'
        defop(idx,kind,arg,m,flat); defop(idx,kind,arg,m2,flat2)
    if d!=d2 or m.dump()!=m2.dump(): c['after-unfreeze-differs']+=1; ex.setdefault('after-unfreeze-differs',seed)
    else: c['after-unfreeze-ok']+=1
for k,v in sorted(c.items(),key=str): print(v,k,ex.get(k,''))
