import xdeps
m=xdeps.Manager(); d={'k':'b','b':1,'c':2,'lst':[10,20,30],'i':1}; r=m.ref(d,'r')
r['y']=r[r['k']]*10
r['z']=r['lst'][r['i']]+1
print(d['y'], d['z'], m.tasks[r['y']].dependencies, m.tasks[r['z']].dependencies)
r['b']=5; print("after b=5: y=",d['y'],"expected 50")
r['k']='c'; print("after k=c: y=",d['y'],"expected 20")
r['lst'][1]=21; print("after lst[1]=21: z=",d['z'],"expected 22")
r['i']=2; print("after i=2: z=",d['z'],"expected 31")
