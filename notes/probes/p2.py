import sys, math, pickle, xdeps, xdeps.refs as R
print("compiled:", R.is_cythonized())
# C03 stale rtasks
m = xdeps.Manager(); d={'a':1,'b':2,'c':{'x':4,'y':6}}; r=m.ref(d,'r')
r['c']['x'] = r['a']*2
r['z'] = r['c']['y'] + 1     # reads sibling of nested target
m.unregister(r['z'])
try: m.verify(); print("C03 verify ok")
except Exception as e: print("C03 verify FAIL:", e)
try:
    r['a']=3; print("C03 set ok", d)
except Exception as e: print("C03 set raises", type(e).__name__, e)
# C04
m = xdeps.Manager(); d={'a':2.6,'b':2,'i':6}; r=m.ref(d,'r')
print("C04 round:", repr(round(r['a'])._get_value()), "python:", repr(round(2.6)))
print("C04 round(a,1):", repr(round(r['a'],1)._get_value()))
r['i'] &= 3
print("C04 &=:", d['i'], m.tasks.get(r['i']), )
try:
    r['b']=5; print("after", d)
except Exception as e: print("err", type(e).__name__, e)
# C05
m = xdeps.Manager(); d={'a':2.666,'b':2}; r=m.ref(d,'r')
print("C05 round deps:", round(r['a'], r['b'])._get_dependencies())
print("C05 divmod deps:", divmod(r['a'], r['b'])._get_dependencies())
print("C05 -container deps:", (-r)._get_dependencies(), (r+1)._get_dependencies(), abs(r)._get_dependencies())
r['c'] = round(r['a'], r['b']); r['b']=1; print("C05 c after b=1:", d['c'], "expected", round(d['a'],1))
# C11
print("C11 repr round:", repr(round(r['a'],2)), repr(math.floor(r['a'])), repr((-3)**r['a']), repr(r['a']**-3), repr(2-r['a']))
# C12
m = xdeps.Manager(); d={'a':-2.5}; r=m.ref(d,'r'); r['b']=abs(r['a'])
try:
    m2=pickle.loads(pickle.dumps(m)); print("C12 pickle ok")
except BaseException as e: print("C12 pickle fails:", type(e).__name__, str(e)[:100])
# C17
m = xdeps.Manager(); d={'a':1}; r=m.ref(d,'r'); r['b']=r['a']*2
m.freeze_tree()
try: m.refresh()
except ValueError as e: print("C17 refresh raises ValueError")
m.unfreeze_tree(); r['a']=5; print("C17 after refresh-frozen: b=", d['b'], "expected 10")
