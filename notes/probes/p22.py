import faulthandler; faulthandler.dump_traceback_later(100, exit=True)
import random, sys, itertools, xdeps, numpy as np
from collections import Counter
from xdeps.optimize.matrixutils import SVD
rng=random.Random(3)
# C06
KEYS=['a','b',"a']['b","x].y",'a.b','é','"q"',"it's",'r','r[\'a\']',0,1,-1,7,-3,0.5,-2.25,1e-7,(1,'t'),(1,2),('a',),'1','(1, 2)']
ATTRS=['a','b','x','y','_p','é']
def mkpath(rng):
    n=rng.randint(1,4); steps=[]
    for _ in range(n):
        if rng.random()<0.6: steps.append(('i',rng.choice(KEYS)))
        else: steps.append(('a',rng.choice(ATTRS)))
    return (rng.choice(['r','s']),tuple(steps))
def build(m_refs,p):
    ref=m_refs[p[0]]
    for k,v in p[1]:
        ref = ref[v] if k=='i' else getattr(ref,v)
    return ref
def keyid(p): return (p[0],tuple((k,type(v).__name__,v) for k,v in p[1]))
m1=xdeps.Manager(); m2=xdeps.Manager()
R1={'r':m1.ref({},'r'),'s':m1.ref({},'s')}; R2={'r':m2.ref({},'r'),'s':m2.ref({},'s')}
paths=list({keyid(p):p for p in (mkpath(rng) for _ in range(600))}.values())
c=Counter()
refs1=[build(R1,p) for p in paths]; refs2=[build(R2,p) for p in paths]
for i,j in itertools.product(range(len(paths)),repeat=2):
    same=keyid(paths[i])==keyid(paths[j])
    a=refs1[i]; b=refs2[j]
    eq=(a==b); heq=hash(a)==hash(b); din = b in {a:1}
    if same and not (eq and heq and din): c['BAD-same']+=1; print(paths[i],eq,heq,din)
    elif not same and (eq or din): c['BAD-diff']+=1; print(paths[i],paths[j])
    else: c['ok']+=1
print("C06", len(paths), c)
# C16 lstsq
c=Counter(); worst=0
nr=np.random.default_rng(5)
for t in range(5000):
    m_=nr.integers(1,7); n_=nr.integers(1,7)
    A=nr.normal(size=(m_,n_))*10.0**nr.integers(-3,4)
    if nr.random()<0.3 and min(m_,n_)>1: A[:, -1]=A[:,0]*2  # rank deficient
    b=nr.normal(size=m_)
    rc=[None,1e-14,1e-8,1e-2][nr.integers(0,4)]; cut=[None,1,2][nr.integers(0,3)]
    svd=SVD(A); x=svd.lstsq(b, rcond=rc, sing_val_cutoff=cut)
    U,s,Vh=np.linalg.svd(A,full_matrices=False)
    k=len(s) if cut is None else min(cut,len(s))
    rce=1e-14 if rc is None else rc
    xr=np.zeros(n_)
    for i in range(k):
        if s[i]>0 and not (s[i] < rce*s[0]): xr+= (U[:,i]@b)/s[i]*Vh[i]
    err=np.linalg.norm(x-xr)/(np.linalg.norm(xr)+1e-300)
    worst=max(worst,err)
    c['ok' if err<1e-9 else 'BAD']+=1
print("C16", c, worst)
