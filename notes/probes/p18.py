import faulthandler; faulthandler.dump_traceback_later(100, exit=True)
import math, random, sys, numpy as np, xdeps, xdeps.refs as R
from collections import Counter
# C11 round trip of random expressions in the property's language
m=xdeps.Manager()
class O: pass
o=O(); o.p=1.5; o.q=-2
d={'a':2.0,'b':-3,'n':{'x':0.5,"we'ird":4,'ref_a':7,"r['a']":8},'l':[1,2.5,3],'o':o, 7:1.25, (1,'t'):2, -3: 9, 0.5: 3}
r=m.ref(d,'r')
import types
F=types.SimpleNamespace(f1=lambda x: x*2, f2=lambda x,y=1: x-y, hyp=math.hypot)
f=m.ref(F,'f')
ns={'r':r,'f':f}
def leaf(rng):
    return rng.choice([lambda: r['a'], lambda: r['b'], lambda: r['n']['x'], lambda: r['n']["we'ird"], lambda: r['n']['ref_a'], lambda: r['n']["r['a']"], lambda: r['l'][1], lambda: r['o'].p, lambda: r['o'].q, lambda: r[7], lambda: r[(1,'t')], lambda: r[-3], lambda: r[0.5]])()
def lit(rng): return rng.choice([0,1,-1,2,-3,0.5,-2.5,1e-7,-1.5e10,3e22, True])
import operator as op
BIN=[op.add,op.sub,op.mul,op.truediv,op.floordiv,op.mod,op.pow,op.lt,op.le,op.gt,op.ge]
def gen(rng,depth):
    if depth==0 or rng.random()<0.25: return leaf(rng)
    k=rng.random()
    if k<0.55:
        o_=rng.choice(BIN); a=gen(rng,depth-1)
        c=rng.random()
        if c<0.4: return o_(a,gen(rng,depth-1))
        if c<0.7: return o_(a,lit(rng))
        return o_(lit(rng),a)
    if k<0.65: return rng.choice([op.neg,op.pos])(gen(rng,depth-1))
    if k<0.75: return abs(gen(rng,depth-1))
    if k<0.80: return round(gen(rng,depth-1), rng.choice([0,1,2,-1]))
    if k<0.83: return round(gen(rng,depth-1))
    if k<0.86: return divmod(gen(rng,depth-1), rng.choice([2,0.5,gen(rng,0)]))
    if k<0.90: return rng.choice([math.floor,math.ceil,math.trunc])(gen(rng,depth-1))
    if k<0.95: return f.f1(gen(rng,depth-1))
    return f.f2(gen(rng,depth-1), y=rng.choice([2,-1.5,gen(rng,0)]))
def val(e):
    try:
        v=e._get_value()
        return ('v',type(v).__name__,repr(v))
    except Exception as ex: return ('e',type(ex).__name__)
c=Counter(); seen={}
rng=random.Random(int(sys.argv[1]))
for i in range(int(sys.argv[2])):
    e=gen(rng,4); s=str(e)
    try: e2=eval(s,{},ns)
    except Exception as ex:
        k=('evalfail',type(ex).__name__); c[k]+=1; seen.setdefault(k,s); continue
    if str(e2)!=s: k=('str-differs',); c[k]+=1; seen.setdefault(k,(s,str(e2))); continue
    if val(e)!=val(e2): k=('value-differs',); c[k]+=1; seen.setdefault(k,(s,val(e),val(e2))); continue
    if e._get_dependencies()!=e2._get_dependencies(): k=('deps-differ',); c[k]+=1; seen.setdefault(k,s); continue
    c['ok']+=1
print(c)
for k,v in seen.items(): print(k, v if len(str(v))<300 else str(v)[:300])
