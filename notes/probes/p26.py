import faulthandler; faulthandler.dump_traceback_later(200, exit=True)
import random, sys, copy, numpy as np
from collections import Counter
from xdeps import Table
def mk(rng,n):
    names=[rng.choice(['a','b','c','d']) for _ in range(n)]
    data={'name':np.array(names,dtype=object),'x':np.array([rng.uniform(-2,2) for _ in range(n)]),'i':np.array([rng.randrange(5) for _ in range(n)],dtype=int),
          'o':np.array([rng.choice([None,(1,2),'s',3.5]) for _ in range(n)],dtype=object),'m':np.arange(2*n,dtype=float).reshape(n,2),'sc':7,'ss':'hello'}
    return Table(data,col_names=['name','x','i','o','m'])
def rect(t):
    cols=t._col_names
    if t._index not in cols: return 'index-not-listed'
    for c_ in cols:
        if c_ not in t._data: return f'missing {c_}'
    ls={len(t._data[c_]) for c_ in cols}
    if len(ls)!=1: return f'lengths {ls}'
    if len(t)!=ls.pop(): return 'len'
    return None
def snap(t): return (list(t._col_names), {k:(v.copy() if hasattr(v,'copy') else v) for k,v in t._data.items()})
def same(a,b):
    if a[0]!=b[0] or set(a[1])!=set(b[1]): return False
    for k in a[1]:
        x,y=a[1][k],b[1][k]
        if isinstance(x,np.ndarray):
            if x.shape!=y.shape: return False
            if x.dtype==object:
                if list(map(repr,x.ravel()))!=list(map(repr,y.ravel())): return False
            elif not np.array_equal(x,y): return False
        elif x!=y: return False
    return True
c=Counter(); ex={}
for seed in range(int(sys.argv[1])):
    rng=random.Random(seed)
    live=[mk(rng,rng.randrange(0,6))]
    for step in range(10):
        t=rng.choice(live); n=len(t)
        op=rng.choice(['rows_slice','rows_list','rows_mask','rows_re','cols','select','add','mul','copy','t','concat','setcol','newcol','setscalar'])
        before=snap(t)
        try:
            if op=='rows_slice': new=t.rows[rng.randrange(-2,3):rng.choice([None,2,5])]
            elif op=='rows_list': new=t.rows[[rng.randrange(n) for _ in range(rng.randrange(0,4))]] if n else t.rows[[]]
            elif op=='rows_mask': new=t.rows[[rng.random()<0.5 for _ in range(n)]]
            elif op=='rows_re': new=t.rows[rng.choice(['a','[ab]','.*','zz'])]
            elif op=='cols': new=t.cols[rng.choice(['x','x i','i o m', 'x+i' if 'x' in t._col_names and 'i' in t._col_names else 'name'])]
            elif op=='select': new=t._select(rng.choice([None,slice(0,2)]), rng.choice([None,'x'])) if 'x' in t._col_names else t._select(None,None)
            elif op=='add': new=t+t
            elif op=='mul': new=t*rng.randrange(0,3)
            elif op=='copy': new=t._copy()
            elif op=='t': new=t._t
            elif op=='concat': new=Table.concatenate([t,t])
            elif op=='setcol':
                cc=rng.choice([x for x in t._col_names if x in('x','i')] or ['name']); 
                t[cc]= 1 if cc!='name' else 'z'; new=None
            elif op=='newcol': t['w'+str(step)]=np.zeros(n); new=None
            else: t['sc2']=5; new=None
        except Exception as e:
            k=('exc',op,type(e).__name__,str(e)[:50]); c[k]+=1; ex.setdefault(k,(seed,step)); new=None
        if new is not None:
            if not same(before,snap(t)): k=('source-changed',op); c[k]+=1; ex.setdefault(k,(seed,step))
            if op in('rows_slice','rows_list','rows_mask','rows_re','cols','select'):
                for sk in t.keys(exclude_columns=True):
                    if sk not in new._data: k=('scalar-lost',op); c[k]+=1; ex.setdefault(k,(seed,step))
            live.append(new)
        for tt in live:
            r=rect(tt)
            if r: k=('rect',r.split()[0],op); c[k]+=1; ex.setdefault(k,(seed,step)); live.remove(tt); break
        c['steps']+=1
for k,v in sorted(c.items(), key=lambda kv:-kv[1] if kv[0]!='steps' else 0): print(v,k,ex.get(k))
