import faulthandler; faulthandler.dump_traceback_later(200, exit=True)
import itertools, re, sys, numpy as np
from collections import Counter
from xdeps import Table
ALPH=sys.argv[1].split(',')
def ref_resolve(names, name, count, offset):
    occ=[i for i,n in enumerate(names) if n==name]
    if count is None: count=0
    if count<0: count+=len(occ)
    if not (0<=count<len(occ)): raise KeyError(name)
    return occ[count]+offset
def split(s):
    off=0
    if '<<' in s: s,o=s.split('<<',1); off-=int(o)
    elif '>>' in s: s,o=s.split('>>',1); off+=int(o)
    cnt=None
    if '::' in s: s,c_=s.split('::',1); cnt=int(c_)
    return s,cnt,off
def ref_regex(names, sel):
    pat,cnt,off=split(sel)
    rx=re.compile(pat, re.IGNORECASE)
    if cnt is None:
        idx=[i for i,n in enumerate(names) if rx.fullmatch(n)]
    else:
        idx=[]
        for nm in dict.fromkeys(n for n in names if rx.fullmatch(n)):
            try: idx.append(ref_resolve(names,nm,cnt,0))
            except KeyError: pass
        idx.sort()
    return [i+off for i in idx]
def ref_sel(names, x, sel):
    n=len(names)
    if isinstance(sel,str): return ref_regex(names,sel)
    if isinstance(sel,slice):
        a,b,c_=sel.start,sel.stop,sel.step
        if isinstance(a,str) or isinstance(b,str):
            ia=None if a is None else ref_resolve(names,*split(a))
            ib=None if b is None else ref_resolve(names,*split(b))+1
            return list(range(n))[slice(ia,ib)]
        if isinstance(c_,str):
            return [i for i in range(n) if (a is None or x[i]>=a) and (b is None or x[i]<=b)]
        return list(range(n))[sel]
    if isinstance(sel,int): return [sel if sel>=0 else n+sel]
    if isinstance(sel,list):
        if len(sel) and isinstance(sel[0],bool): return [i for i,v in enumerate(sel) if v]
        return [ (s if s>=0 else n+s) if isinstance(s,int) else ref_resolve(names,*split(s)) for s in sel]
    if sel is None: return list(range(n))
c=Counter(); ex={}
for L in range(0,5):
  for names in itertools.product(ALPH,repeat=L):
    names=list(names); n=L
    x=np.arange(n,dtype=float)
    t=Table({'name':np.array(names,dtype=object),'x':x.copy()})
    sels=[None]+[f'{a}' for a in ALPH]+[f'{a}::{k}' for a in ALPH for k in (0,1,-1,-2)]+['a.*','.*','[ab]','a|b','a.*::0','.*::1','.*::-1','a::0>>1','.*::0<<1','zz','A']
    sels+=[slice(a,b) for a in (None,ALPH[0],ALPH[1]) for b in (None,ALPH[1],ALPH[2],ALPH[0]+'::1')]
    sels+=[slice(lo,hi,'x') for lo in (None,0.5,1.0) for hi in (None,1.0,2.5)]
    sels+=[slice(1,3),slice(None,None,2),slice(-2,None)]
    if n: sels+=[0,-1,[0,n-1],[True]+[False]*(n-1),[ALPH[0]] ]
    for sel in sels:
        try: exp=('v',ref_sel(names,x,sel))
        except KeyError: exp=('e','KeyError')
        except IndexError: exp=('e','IndexError')
        if exp[0]=='v' and any(i<0 or i>=n for i in exp[1]): continue   # offset outside table
        try:
            got=t.rows.indices[sel]; got=('v',[int(i) for i in np.atleast_1d(got)])
        except Exception as e: got=('e',type(e).__name__)
        ok = exp==got
        k=(type(sel).__name__, 'ok' if ok else 'BAD')
        c[k]+=1
        if not ok:
            kk=(type(sel).__name__, str(sel) if not isinstance(sel,list) else 'list', exp[0],got[0] if got[0]=='e' else 'v', got[1] if got[0]=='e' else '')
            ex.setdefault(kk,(names,sel,exp,got)); c[('class',)+kk]+=1
print({k:v for k,v in c.items() if k[0]!='class'})
for k,v in ex.items(): print(c[('class',)+k], v)
