import faulthandler; faulthandler.dump_traceback_later(250, exit=True)
import random, sys, math, xdeps, xdeps.tasks as T
from collections import Counter
RUNS=[]
_orig=T.ExprTask.run
def _run(self): RUNS.append(self.taskid); return _orig(self)
T.ExprTask.run=_run
class O: pass
# path descriptors: ('v0',), ('n','x'), ('l',1), ('o','.p')
def world():
    o=O(); o.p=1.5; o.q=-2.0; o.s=0.25
    return {'v0':1.0,'v1':2.0,'v2':-1.0,'v3':0.5,'n':{'x':0.5,'y':4.0,'z':1.0},'l':[1.0,2.5,3.0],'o':o}
PATHS=[('v0',),('v1',),('v2',),('v3',),('t1',),('t2',),('t3',),('n','x'),('n','y'),('n','z'),('l',0),('l',1),('l',2),('o','.p'),('o','.q'),('o','.s')]
def mkref(r,p):
    x=r[p[0]]
    for k in p[1:]:
        x = getattr(x,k[1:]) if isinstance(k,str) and k.startswith('.') else x[k]
    return x
def read(d,p):
    x=d[p[0]]
    for k in p[1:]:
        x = getattr(x,k[1:]) if isinstance(k,str) and k.startswith('.') else x[k]
    return x
OPS={'+':lambda a,b:a+b,'-':lambda a,b:a-b,'*':lambda a,b:a*b}
def sccs(graph):
    sys.setrecursionlimit(10000)
    idx={}; low={}; st=[]; on=set(); comp_of={}; n=[0]
    def sc(v):
        idx[v]=low[v]=n[0]; n[0]+=1; st.append(v); on.add(v)
        for w in graph.get(v,()):
            if w==v: continue
            if w not in idx: sc(w); low[v]=min(low[v],low[w])
            elif w in on: low[v]=min(low[v],idx[w])
        if low[v]==idx[v]:
            comp=[]
            while True:
                w=st.pop(); on.discard(w); comp.append(w)
                if w==v: break
            for w in comp: comp_of[w]=(id(comp),len(comp))
    for v in list(graph):
        if v not in idx: sc(v)
    return comp_of
c=Counter(); ex={}
for seed in range(int(sys.argv[1])):
    rng=random.Random(seed); layered = rng.random()<float(sys.argv[2])
    m=xdeps.Manager(); d=world(); r=m.ref(d,'r')
    defs={}   # path -> (op, p1, p2, const)
    vals={p:read(d,p) for p in PATHS if p[0] not in('t1','t2','t3')}
    for p in [('t1',),('t2',),('t3',)]: vals[p]=0.0; d[p[0]]=0.0
    LAY={('v0',):0,('v1',):0,('v2',):0,('v3',):0,('t1',):1,('n','x'):2,('n','y'):2,('n','z'):2,('t2',):3,('l',0):4,('l',1):4,('l',2):4,('o','.p'):5,('o','.q'):5,('o','.s'):5,('t3',):6}
    def depends(p,q,seen=None):  # does p (transitively) depend on q in shadow defs
        if p==q: return True
        if p not in defs: return False
        return any(depends(x,q) for x in defs[p][1:3])
    def expected(p,memo):
        if p in memo: return memo[p]
        if p in defs:
            op,a,b,k=defs[p]; v=OPS[op](expected(a,memo)*k, expected(b,memo))
        else: v=vals[p]
        memo[p]=v; return v
    def leafreads(p): return set(defs[p][1:3]) if p in defs else set()
    bad=False
    for step in range(rng.randrange(8,30)):
        k=rng.random(); RUNS.clear()
        if k<0.5:
            t=rng.choice(PATHS[4:]) if not layered else rng.choice([p for p in PATHS if LAY[p]>0])
            cand=[p for p in PATHS if p!=t and not depends(p,t) and (not layered or LAY[p]<LAY[t])]
            a=rng.choice(cand); b=rng.choice(cand); op=rng.choice('+-*'); kk=rng.choice([1.0,2.0,-0.5])
            defs[t]=(op,a,b,kk); vals.pop(t,None)
            ra=mkref(r,a); rb=mkref(r,b)
            m.set_value(mkref(r,t), {'+':ra*kk+rb,'-':ra*kk-rb,'*':ra*kk*rb}[op]); assigned=t
        elif k<0.6:
            t=rng.choice(PATHS[4:]); memo={}
            if t in defs: vals[t]=None; del defs[t]
            vals[t]=rng.uniform(-2,2); m.set_value(mkref(r,t),vals[t]); assigned=t
        else:
            cand=[p for p in PATHS if p not in defs]
            t=rng.choice(cand); vals[t]=rng.uniform(-2,2); m.set_value(mkref(r,t),vals[t]); assigned=t
        memo={}
        mism=[p for p in PATHS if not (read(d,p)==expected(p,memo) or (read(d,p)!=read(d,p) and expected(p,memo)!=expected(p,memo)))]
        c['assign']+=1
        if mism:
            # classify: inversions in run order wrt true dataflow; within rtasks SCC?
            order={mkref(r,p):None for p in PATHS}
            pos={tid:i for i,tid in enumerate(RUNS)}
            comp=sccs({k_:list(v) for k_,v in m.rtasks.items()})
            inv=[]
            for T_ in defs:
                rt=mkref(r,T_)
                if rt not in pos: continue
                for P_ in leafreads(T_):
                    rp=mkref(r,P_)
                    if P_ in defs and rp in pos and pos[rt]<pos[rp]: inv.append((rp,rt))
            if not inv: kx='MISMATCH-no-inversion'
            elif all(comp.get(a_)==comp.get(b_) and comp.get(a_,(0,1))[1]>1 for a_,b_ in inv): kx='mismatch-KF1'
            else: kx='MISMATCH-inversion-outside-scc'
            c[(kx,'layered' if layered else 'free')]+=1; ex.setdefault(kx,(seed,step,assigned,mism[:3],inv[:2]))
            break
    else: c[('clean-history','layered' if layered else 'free')]+=1
for k,v in sorted(c.items(),key=str): print(v,k)
for k,v in ex.items(): print(k,v)
