#!/venv/bin/python
"""tools/mkmeta.py <seed name> <property> <change> <needs> <caught_by json> <history> [origin round text]  -- writes seeded/<name>/meta.json"""
import json, sys, os
name, prop, change, needs, caught, history = sys.argv[1:7]
rnd = sys.argv[7] if len(sys.argv) > 7 else ("independent sub-agent (ninth round: told about the earlier seeds of its property; asked for an interaction of two live "
      "objects, an unusual legal value type or shape, a repeated / undone operation, or an error path followed by a legal call), property text + scratch worktree of /repo at c5a705d")
d = {"property": prop, "change": change, "needs": needs, "caught_by": json.loads(caught), "origin": rnd,
     "confirmed": "tools/seed_confirm.sh: demo exit 0 without / non-zero with the change; repository tests unchanged (75 passed + the 2 usual failures in the worktree)",
     "ran": "tools/mutant.sh /verif/seeded/%s/patch.diff <check>" % name, "history": history}
json.dump(d, open(os.path.join(os.path.dirname(os.path.dirname(os.path.abspath(__file__))), "seeded", name, "meta.json"), "w"), indent=1)
