#!/bin/sh
# tools/mutant.sh <patch-or-sed-script> <check id> [tier]
# Runs one check against a scratch COPY of /repo with a change applied (never touches /repo);
# evidence and replays go to a scratch directory. Used to confirm that checks fire.
#   patch file (*.diff|*.patch): applied with `git apply` / patch -p1 in the copy
#   otherwise: the argument is a shell command run inside the copy (e.g. "sed -i s/appendleft/append/ xdeps/sorting.py")
set -e
CH="$1"; ID="$2"; TIER="${3:-quick}"
W=$(mktemp -d /dev/shm/mutant-XXXXXX)
trap 'rm -rf "$W"' EXIT
mkdir -p "$W/repo"
(cd /repo && git ls-files -z | xargs -0 cp --parents -t "$W/repo")
case "$CH" in
  *.diff|*.patch) (cd "$W/repo" && patch -p1 -s < "$CH") ;;
  *) (cd "$W/repo" && sh -c "$CH") ;;
esac
cd "$(dirname "$0")/.."
set +e
XDEPS_REPO="$W/repo" VERIF_EVIDENCE_DIR="$W/ev" VERIF_REPLAY_DIR="$W/rp" ./check "$ID" --tier "$TIER" 2>&1 | cut -c1-${MUTANT_COLS:-220} | grep -v "^KNOWN-FINDING" | head -${MUTANT_LINES:-8}
