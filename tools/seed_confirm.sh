#!/bin/sh
# tools/seed_confirm.sh <ID> [name] [worktree]  -- confirm a sub-agent's seeded change in its scratch worktree /tmp/wt-<ID>
# and store it as /verif/seeded/<name>/ (patch.diff, demo, confirm.log). Never touches /repo's files.
ID="$1"; NAME="${2:-$1}"; WT="${3:-/tmp/wt-$ID}"; OUT=/verif/seeded/$NAME
mkdir -p "$OUT"
git -C "$WT" diff -- xdeps > "$OUT/patch.diff"
cp "$WT"/demo_*.py "$OUT"/ 2>/dev/null
DEMO=$(ls "$WT"/demo_*.py | head -1)
{
echo "== demo WITH change"; (cd "$WT" && timeout 600 /venv/bin/python "$DEMO" 2>&1 | tail -5; echo "exit=$?")
(cd "$WT" && timeout 600 /venv/bin/python "$DEMO" >/dev/null 2>&1); echo "demo_with_change_exit=$?"
echo "== test suite WITH change (plain-Python refs in the worktree)"
(cd "$WT" && /venv/bin/python -m pytest -q -p no:cacheprovider --timeout=900 tests 2>&1 | tail -4)
git -C "$WT" stash list >/dev/null
(cd "$WT" && git checkout -q -- xdeps)
echo "== demo WITHOUT change"; (cd "$WT" && timeout 600 /venv/bin/python "$DEMO" >/dev/null 2>&1); echo "demo_without_change_exit=$?"
(cd "$WT" && git apply "$OUT/patch.diff")
} > "$OUT/confirm.log" 2>&1
grep -E "exit=|passed|failed" "$OUT/confirm.log"
find "$WT" -name __pycache__ -type d -prune -exec rm -rf {} + 2>/dev/null
