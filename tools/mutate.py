"""tools/mutate.py gen <outdir> <n> [seed]   -- generate single-token mutants of the xdeps sources as patch files
tools/mutate.py run <patch> <logdir>        -- run one mutant: repository tests first, then the checks of its file

A systematic complement to the hand-seeded changes: classic mutation operators (comparison / boolean / arithmetic
operators, constants, None tests, break/continue, statement deletion) applied to the library sources.  A mutant
that PASSES the repository's tests is run against the checks mapped to its file; survivors are listed for
analysis (equivalent mutant, outside every property, or a gap in a check).  Works on scratch copies only.
"""
import ast
import json
import os
import random
import re
import shutil
import subprocess
import sys
import tempfile

REPO = os.environ.get("XDEPS_REPO_SRC", "/repo")
VERIF = os.path.dirname(os.path.dirname(os.path.abspath(__file__)))
FILES = {
    "xdeps/tasks.py": ["C01", "C02", "C03", "C17", "C18", "C11", "C12", "C13"],
    "xdeps/sorting.py": ["C01", "C02", "C20"],
    "xdeps/refs.py": ["C04", "C05", "C06", "C11", "C12", "C01", "C19"],
    "xdeps/table.py": ["C07", "C08", "C14"],
    "xdeps/optimize/optimize.py": ["C09", "C10", "C15", "C16"],
    "xdeps/optimize/jacobian.py": ["C09", "C10", "C15", "C16"],
    "xdeps/optimize/matrixutils.py": ["C16"],
    "xdeps/madxutils.py": ["C19"],
    "xdeps/utils.py": ["C12"],
}
OPS = [
    (r" == ", " != "), (r" != ", " == "), (r" < ", " <= "), (r" <= ", " < "), (r" > ", " >= "), (r" >= ", " > "),
    (r" and ", " or "), (r" or ", " and "), (r" is None", " is not None"), (r" is not None", " is None"),
    (r"\bif not ", "if "), (r" \+ ", " - "), (r" - ", " + "), (r" \* ", " / "), (r" / ", " * "),
    (r"\bTrue\b", "False"), (r"\bFalse\b", "True"), (r"\[0\]", "[1]"), (r"\[1\]", "[0]"), (r"\[-1\]", "[0]"),
    (r"\+= ", "-= "), (r"-= ", "+= "), (r"\bbreak\b", "continue"), (r"\bcontinue\b", "break"),
    (r" in ", " not in "), (r" not in ", " in "), (r"\.append\(", ".insert(0, "), (r"\b0\b", "1"), (r"\b1\b", "2"),
    (r"\bmin\(", "max("), (r"\bmax\(", "min("), (r"\bany\(", "all("), (r"\ball\(", "any("), (r"\.copy\(\)", ""),
    (r"<= ", "< "), (r">= ", "> "),
]


def code_lines(src):
    """Line numbers (0-based) that belong to function bodies and are not docstrings / comments / decorators."""
    tree = ast.parse(src)
    doc = set()
    body = set()
    for node in ast.walk(tree):
        if isinstance(node, (ast.FunctionDef, ast.AsyncFunctionDef)):
            for st in node.body:
                for ln in range(st.lineno - 1, (st.end_lineno or st.lineno)):
                    body.add(ln)
            first = node.body[0]
            if isinstance(first, ast.Expr) and isinstance(getattr(first, "value", None), ast.Constant) and isinstance(first.value.value, str):
                for ln in range(first.lineno - 1, first.end_lineno):
                    doc.add(ln)
    return sorted(body - doc)


def gen(outdir, n, seed=0):
    rng = random.Random(seed)
    os.makedirs(outdir, exist_ok=True)
    cands = []
    for rel in FILES:
        src = open(os.path.join(REPO, rel)).read()
        lines = src.split("\n")
        for ln in code_lines(src):
            text = lines[ln]
            st = text.strip()
            if not st or st.startswith("#") or st.startswith("@") or st.startswith("assert ") or "logger." in st or st.startswith("print(") \
                    or st.startswith("_print(") or st.startswith("raise ") or "verbose" in st:
                continue
            code = text.split("  #")[0]
            for pat, rep in OPS:
                for m in re.finditer(pat, code):
                    # skip matches inside string literals (crude: odd number of quotes before the match)
                    pre = code[:m.start()]
                    if pre.count('"') % 2 or pre.count("'") % 2:
                        continue
                    new = code[:m.start()] + re.sub(pat, rep, m.group(0)) + code[m.end():] + text[len(code):]
                    cands.append((rel, ln, text, new, "%s -> %s" % (pat, rep)))
            # statement deletion for simple one-line statements
            if re.match(r"^\s+(self\.\w+|[\w\.\[\]'\"]+)\s*(=|\+=|-=|\.\w+\()", text) and not st.endswith((",", "(", "[", "{", "\\")) \
                    and text.count("(") == text.count(")") and text.count("[") == text.count("]"):
                cands.append((rel, ln, text, re.match(r"^\s*", text).group(0) + "pass", "delete statement"))
    rng.shuffle(cands)
    per_file = {}
    out = []
    quota = {rel: max(6, int(n * w)) for rel, w in {
        "xdeps/tasks.py": 0.22, "xdeps/sorting.py": 0.04, "xdeps/refs.py": 0.2, "xdeps/table.py": 0.2,
        "xdeps/optimize/optimize.py": 0.2, "xdeps/optimize/jacobian.py": 0.07, "xdeps/optimize/matrixutils.py": 0.02,
        "xdeps/madxutils.py": 0.04, "xdeps/utils.py": 0.01}.items()}
    seen_lines = {}
    for rel, ln, old, new, what in cands:
        if per_file.get(rel, 0) >= quota[rel] or seen_lines.get((rel, ln), 0) >= 2:
            continue
        src = open(os.path.join(REPO, rel)).read().split("\n")
        src[ln] = new
        try:
            compile("\n".join(src), rel, "exec")
        except SyntaxError:
            continue
        per_file[rel] = per_file.get(rel, 0) + 1
        seen_lines[(rel, ln)] = seen_lines.get((rel, ln), 0) + 1
        idx = len(out)
        with tempfile.TemporaryDirectory() as td:
            a, b = os.path.join(td, "a"), os.path.join(td, "b")
            for d in (a, b):
                os.makedirs(os.path.join(d, os.path.dirname(rel)))
            open(os.path.join(a, rel), "w").write(open(os.path.join(REPO, rel)).read())
            open(os.path.join(b, rel), "w").write("\n".join(src))
            p = subprocess.run(["diff", "-u", os.path.join("a", rel), os.path.join("b", rel)], cwd=td, capture_output=True, text=True)
        name = "m%04d" % idx
        open(os.path.join(outdir, name + ".diff"), "w").write(p.stdout)
        meta = {"id": name, "file": rel, "line": ln + 1, "old": old.strip(), "new": new.strip(), "op": what, "checks": FILES[rel]}
        json.dump(meta, open(os.path.join(outdir, name + ".json"), "w"))
        out.append(meta)
    print("generated %d mutants in %s: %s" % (len(out), outdir, per_file))


def run(patch, logdir):
    meta = json.load(open(patch[:-5] + ".json"))
    os.makedirs(logdir, exist_ok=True)
    res = dict(meta)
    w = tempfile.mkdtemp(prefix="mut-", dir="/dev/shm")
    try:
        repo = os.path.join(w, "repo")
        shutil.copytree(REPO, repo, ignore=shutil.ignore_patterns(".git", "__pycache__", ".pytest_cache", "build", "refs.c"))
        if meta["file"] == "xdeps/refs.py":
            for f in os.listdir(os.path.join(repo, "xdeps")):
                if f.endswith(".so"):
                    os.remove(os.path.join(repo, "xdeps", f))       # stale extension: the tests then use the mutated pure module
        p = subprocess.run(["patch", "-p1", "-s", "-i", os.path.abspath(patch)], cwd=repo, capture_output=True, text=True)
        if p.returncode:
            res["outcome"] = "patch-failed"
            return res
        env = dict(os.environ, PYTHONPATH=repo, PYTHONDONTWRITEBYTECODE="1")
        try:
            t = subprocess.run(["/venv/bin/python", "-m", "pytest", "-q", "-x", "-p", "no:cacheprovider", "--timeout=300", "tests",
                                "--deselect", "tests/test_table.py::test_table_from_methods", "--deselect", "tests/test_refs.py::test_cythonized"],
                               cwd=repo, env=env, capture_output=True, text=True, timeout=1500)
            tests_ok = t.returncode == 0
            res["tests_tail"] = t.stdout.strip().splitlines()[-1:] if t.stdout.strip() else []
        except subprocess.TimeoutExpired:
            tests_ok = False
            res["tests_tail"] = ["timeout"]
        if not tests_ok:
            res["outcome"] = "killed-by-repo-tests"
            return res
        res["caught_by"] = []
        for cid in meta["checks"]:
            env2 = dict(os.environ, XDEPS_REPO=repo, VERIF_EVIDENCE_DIR=os.path.join(w, "ev"), VERIF_REPLAY_DIR=os.path.join(w, "rp"))
            try:
                c = subprocess.run(["./check", cid, "--tier", "quick"], cwd=VERIF, env=env2, capture_output=True, text=True, timeout=2400)
                rc = c.returncode
                tail = [l for l in (c.stdout + c.stderr).splitlines() if "violation 0" in l or l.startswith("INCONCL")][:1]
            except subprocess.TimeoutExpired:
                rc, tail = 2, ["timeout"]
            if rc != 0:
                res["caught_by"].append([cid, rc, (tail[0][:300] if tail else "")])
                break
        res["outcome"] = "caught" if res["caught_by"] else "SURVIVED"
        return res
    finally:
        shutil.rmtree(w, ignore_errors=True)
        json.dump(res, open(os.path.join(logdir, meta["id"] + ".result.json"), "w"))
        print(meta["id"], res.get("outcome"), meta["file"], meta["line"], res.get("caught_by", "")[:1] if res.get("caught_by") else "", flush=True)


if __name__ == "__main__":
    if sys.argv[1] == "gen":
        gen(sys.argv[2], int(sys.argv[3]), int(sys.argv[4]) if len(sys.argv) > 4 else 0)
    else:
        run(sys.argv[2], sys.argv[3])
