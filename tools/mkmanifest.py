"""Regenerates /verif/MANIFEST.json from the check modules present in checks/."""
import importlib
import json
import os
import sys

VERIF = os.path.dirname(os.path.dirname(os.path.abspath(__file__)))
sys.path.insert(0, VERIF)
props = [json.loads(l) for l in open(os.path.join(VERIF, "properties.jsonl"))]
checks, na = [], []
for p in props:
    pid = p["id"]
    if not os.path.exists(os.path.join(VERIF, "checks", pid.lower() + ".py")):
        na.append({"property_id": pid, "reason": "check designed (DESIGN.md section 3) but not built yet in this round; not claimed"})
        continue
    m = importlib.import_module("checks." + pid.lower())
    checks.append({
        "property_id": pid,
        "quick_cmd": "./check %s --tier quick" % pid,
        "thorough_cmd": "./check %s --tier thorough" % pid,
        "evidence_file": "/verif/evidence/%s.json" % pid,
        "replay_cmd_template": "./check %s --replay {path}" % pid,
        "engine": "runtime-monitor",
        "level_claimed": {"category": m.LEVEL, "text": m.TEXT, "design_ref": "DESIGN.md section 3, %s" % pid},
        "level_note": m.NOTE,
        "technique": m.TECHNIQUE,
    })
man = {
    "version": 1,
    "setup_cmd": "./setup.sh",
    "hooks": {
        "guard": "XDEPS_VERIF",
        "enable": "no source hooks: every monitor attaches from the harness (class-level wrappers, tracing containers, replaced toposort); checks copy /repo/xdeps/*.py into a scratch overlay, cythonize refs.py there, and run workers with XDEPS_VERIF=1 and the overlay first on PYTHONPATH",
        "baseline_off_cmd": "cd /repo && /venv/bin/python -m pytest -ra -q -p no:cacheprovider --timeout=900 --continue-on-collection-errors",
        "source_commits": [],
        "add_only": True,
    },
    "engines": [{
        "name": "runtime-monitor", "path": "/verif/vlib",
        "serves_properties": [c["property_id"] for c in checks],
        "kind_free_text": "runtime monitoring: generated/hostile/fault-injected workloads executed on the real code (overlay of /repo's working tree; compiled, pure-Python and ASan/UBSan builds of refs.py) under reference-model monitors, invariants at call boundaries, recorded run/write traces checked offline, twin executions and cross-configuration transcripts",
    }],
    "checks": checks,
    "not_applicable": na,
    "notes": "Exit codes: 0 held on everything observed; 1 violation (VIOLATION line + replay file); 2 inconclusive (watchdog, build failure or a deciding counter at zero; INCONCLUSIVE line). Known findings: /verif/known_findings.json. VERIF_SEED selects the random workload.",
}
with open(os.path.join(VERIF, "MANIFEST.json"), "w") as fh:
    json.dump(man, fh, indent=1)
print("MANIFEST.json: %d checks, %d not_applicable" % (len(checks), len(na)))
