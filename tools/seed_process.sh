#!/bin/sh
# tools/seed_process.sh <name> [extra check ids...]  -- confirm the sub-agent's change in /tmp/wt-<name>, store it under seeded/<name>,
# run the check of its property (and the extra ones) against it on a scratch copy, then remove the scratch worktree.
N="$1"; shift; ID=$(echo "$N" | cut -c1-3)
cd "$(dirname "$0")/.."
tools/seed_confirm.sh "$ID" "$N" "/tmp/wt-$N"
for c in "$ID" "$@"; do
  out=$(MUTANT_LINES=400 tools/mutant.sh "/verif/seeded/$N/patch.diff" "$c" quick 2>&1)
  if echo "$out" | grep -q "^VIOLATION property=$c"; then echo "CAUGHT $N by $c: $(echo "$out" | grep -m1 '^--- violation' | cut -c1-260)"; else echo "MISSED $N by $c: $(echo "$out" | tail -1 | cut -c1-150)"; fi
done
git -C /repo worktree remove --force "/tmp/wt-$N" && echo "worktree removed"
