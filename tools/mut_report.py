"""tools/mut_report.py <logdir> : survivors of a mutation campaign with the enclosing function of each mutated line."""
import ast, glob, json, os, sys
REPO = "/repo"
fn_cache = {}
def func_of(rel, line):
    if rel not in fn_cache:
        tree = ast.parse(open(os.path.join(REPO, rel)).read())
        spans = []
        for node in ast.walk(tree):
            if isinstance(node, (ast.FunctionDef, ast.ClassDef)):
                spans.append((node.lineno, node.end_lineno, node.name, isinstance(node, ast.ClassDef)))
        fn_cache[rel] = spans
    best = [s for s in fn_cache[rel] if s[0] <= line <= s[1]]
    cls = [s[2] for s in best if s[3]]
    fns = [s for s in best if not s[3]]
    fn = min(fns, key=lambda s: s[1] - s[0])[2] if fns else "?"
    return (cls[-1] + "." if cls else "") + fn
rows = []
tally = {}
for f in sorted(glob.glob(os.path.join(sys.argv[1], "*.result.json"))):
    r = json.load(open(f))
    tally[r.get("outcome")] = tally.get(r.get("outcome"), 0) + 1
    if r.get("outcome") == "SURVIVED":
        rows.append((r["file"], func_of(r["file"], r["line"]), r["line"], r["id"], r["old"][:90], r["new"][:90]))
print(tally)
for row in sorted(rows):
    print("%-28s %-40s L%-5d %s\n      - %s\n      + %s" % row)
