#!/bin/sh
# tools/regress_seeds.sh [jobs]  -- run every stored seeded change (seeded/<name>/patch.diff) against the check of its
# property on a scratch copy of /repo; prints one line per seed: CAUGHT / MISSED.  Never touches /repo.
cd "$(dirname "$0")/.."
J="${1:-5}"
ls seeded | xargs -P "$J" -I{} sh -c '
  n={}; id=$(echo $n | cut -c1-3); [ "$n" = "F21-revert" ] && id=C15; [ "$n" = "F22-revert" ] && id=C08; [ "$n" = "F23-revert" ] && id=C03
  out=$(MUTANT_LINES=400 tools/mutant.sh /verif/seeded/$n/patch.diff $id quick 2>&1)
  if echo "$out" | grep -q "^VIOLATION property=$id"; then echo "CAUGHT $n"; else echo "MISSED $n: $(echo "$out" | tail -1 | cut -c1-150)"; fi'
