#!/bin/sh
# tools/run_all.sh [tier] : runs every registered check on /repo's working tree, one line per check
cd "$(dirname "$0")/.." || exit 2
TIER="${1:-quick}"
rc=0
for c in C01 C02 C03 C04 C05 C06 C07 C08 C09 C10 C11 C12 C13 C14 C15 C16 C17 C18 C19 C20; do
  out=$(./check $c --tier "$TIER" 2>/dev/null); r=$?
  echo "$r $(echo "$out" | grep -v '^KNOWN-FINDING' | tail -1 | cut -c1-160)"
  [ $r -ne 0 ] && rc=1
done
exit $rc
