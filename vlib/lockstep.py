"""Lock-step execution of a history on the real manager and the shadow, with comparison."""
from . import containers as C
from . import mgrmon
from . import programs as P
from .shadow import Shadow  # noqa: re-exported
from .values import canon, signed_zero_differs

STATS = {"assignments_compared": 0, "locations_compared": 0, "signed_zero_differences": 0}


def compare_contents(got, exp):
    """List of (location, got, expected) that differ by value or type; also missing/extra."""
    out = []
    for k in exp:
        if k not in got:
            out.append((k, "<missing>", canon(exp[k])))
            continue
        STATS["locations_compared"] += 1
        a, b = got[k], exp[k]
        if canon(a) != canon(b):
            out.append((k, canon(a), canon(b)))
        elif signed_zero_differs(a, b):
            STATS["signed_zero_differences"] += 1
    for k in got:
        if k not in exp:
            out.append((k, canon(got[k]), "<absent>"))
    return out


class LockStep:
    def __init__(self, world):
        C.reset()
        self.world = world
        self.runner = P.Runner(world)
        self.ops = []

    def step(self, op, exp):
        """Execute op on the real manager; compare all tracked locations with `exp`.
        Returns None or a failure dict."""
        del C.EVENTS[:]
        self.ops.append(op)
        before = self._manager_state() if op[0] == "query" else None
        try:
            self.runner.exec_op(op)
        except Exception as exc:  # the premise guarantees every expression evaluates
            return {"kind": "exception", "exc_type": type(exc).__name__, "exc": str(exc)[:500],
                    "run_order": self.run_order()}
        if before is not None:
            # a query is read-only: no task runs, no container write, definitions / index supports / registry unchanged
            STATS["queries_checked"] = STATS.get("queries_checked", 0) + 1
            ev = [e for e in C.EVENTS if e[0] in ("run", "w")]
            after = self._manager_state()
            if ev or after != before:
                diff = [k for k in before if before[k] != after[k]]
                return {"kind": "query-side-effect", "query": op[1], "events": ev[:4], "changed": diff,
                        "before": {k: before[k] for k in diff}, "after": {k: after[k] for k in diff}, "run_order": self.run_order()}
        if exp is None:
            return None
        STATS["assignments_compared"] += 1
        mism = compare_contents(self.runner.contents(), exp)
        if mism:
            return {"kind": "mismatch", "mismatches": mism[:8], "n_mismatches": len(mism),
                    "run_order": self.run_order()}
        return None

    def _manager_state(self):
        from vlib import mgrmon
        m = self.runner.mgr
        sup = {n: sorted((str(k), sorted(map(str, v))) for k, v in d.items()) for n, d in mgrmon.index_supports(m).items()}
        return dict(sup, tasks=sorted(map(str, m.tasks)), containers=sorted((str(k), id(v)) for k, v in m.containers.items()),
                    frozen=bool(getattr(m, "_tree_frozen", False)))

    def run_order(self):
        return [e[1] for e in C.EVENTS if e[0] == "run"]


def replay_history(world, ops, on_step=None):
    """Re-execute a recorded history; returns (failure or None, index, lockstep, shadow).
    Raises ValueError if the history is not executable on the shadow (premise broken)."""
    sh = Shadow(world)
    ls = LockStep(world)
    for i, op in enumerate(ops):
        try:
            sh.apply(op)
            exp = sh.all_expected()
        except Exception as exc:
            raise ValueError("history not valid at op %d: %s: %s" % (i, type(exc).__name__, exc))
        f = ls.step(op, exp)
        if on_step is not None and f is None:
            f = on_step(i, op, ls, sh)
        if f:
            return f, i, ls, sh
    return None, len(ops), ls, sh


def shrink_history(world, ops, same_failure, max_rounds=4):
    """Greedy: drop single operations while `same_failure(failure)` still holds at the end."""
    def fails(cand):
        try:
            f, i, ls, sh = replay_history(world, cand)
        except Exception:
            return False
        return bool(f) and same_failure(f, ls, sh)
    cur = list(ops)
    for _ in range(max_rounds):
        changed = False
        i = len(cur) - 2
        while i >= 0:
            cand = cur[:i] + cur[i + 1:]
            if fails(cand):
                cur = cand
                changed = True
            i -= 1
        if not changed:
            break
    return cur
