"""Monitors for xdeps.Manager: run events (M3), schedule perturbation, index invariant (M4),
SCC predicate and the KF1 classifier.  Everything attaches from the harness."""
from . import containers as C
from .values import enc

_installed = {}
COUNTS = {"run_events": 0, "toposort_calls": 0, "toposort_contract_checks": 0, "shuffles": 0}


def install_run_events():
    """Wrap the run methods of the three task classes (class level) to emit run events."""
    import xdeps.tasks as T
    if "run" in _installed:
        return
    for cls in (T.ExprTask, T.FunctionTask, T.LinearKnob):
        orig = cls.run

        def run(self, _orig=orig):
            COUNTS["run_events"] += 1
            C.EVENTS.append(("run", self.taskid))
            return _orig(self)
        cls.run = run
    _installed["run"] = True


class ToposortContractBroken(AssertionError):
    pass


def sccs(graph):
    """Map vertex -> (component id, size) for a graph {v: iterable of successors}; iterative
    Tarjan; self loops are ignored (a self loop alone does not make a component non-trivial)."""
    index, low, comp = {}, {}, {}
    stack, on = [], set()
    n = 0
    ncomp = 0
    verts = list(graph)
    for root in verts:
        if root in index:
            continue
        work = [(root, iter(graph.get(root, ())))]
        index[root] = low[root] = n
        n += 1
        stack.append(root)
        on.add(root)
        while work:
            v, it = work[-1]
            advanced = False
            for w in it:
                if w == v:
                    continue
                if w not in index:
                    index[w] = low[w] = n
                    n += 1
                    stack.append(w)
                    on.add(w)
                    work.append((w, iter(graph.get(w, ()))))
                    advanced = True
                    break
                elif w in on:
                    low[v] = min(low[v], index[w])
            if advanced:
                continue
            work.pop()
            if work:
                u = work[-1][0]
                low[u] = min(low[u], low[v])
            if low[v] == index[v]:
                members = []
                while True:
                    w = stack.pop()
                    on.discard(w)
                    members.append(w)
                    if w == v:
                        break
                for w in members:
                    comp[w] = (ncomp, len(members))
                ncomp += 1
    return comp


def check_toposort_contract(graph, start, result):
    """Post-condition of toposort(graph, start): duplicate free, contains the start vertices,
    closed under successors, and every edge u->v whose endpoints are not in a common cycle
    has u before v."""
    pos = {}
    for i, v in enumerate(result):
        if v in pos:
            raise ToposortContractBroken("duplicate vertex %r in toposort result" % (v,))
        pos[v] = i
    for v in start:
        if v not in pos:
            raise ToposortContractBroken("start vertex %r missing from result" % (v,))
    comp = sccs({v: list(graph.get(v, ())) for v in result})
    for u in result:
        for v in graph.get(u, ()):
            if v not in pos:
                raise ToposortContractBroken("successor %r of %r missing from result" % (v, u))
            if u != v and comp[u][0] != comp[v][0] and pos[u] > pos[v]:
                raise ToposortContractBroken("edge %r -> %r not respected" % (u, v))


class ToposortBoundExceeded(AssertionError):
    pass


class _CountingGraph:
    """Read-only view of the ordering graph that bounds the number of successor lookups: a
    depth-first search needs one lookup per reachable vertex; a search that does not
    terminate (e.g. on a cycle) exceeds any bound -- a logical step bound, not a clock."""

    def __init__(self, graph):
        self._g = graph
        self._n = 0
        self._bound = 4 * (len(graph) + sum(len(v) for v in graph.values())) + 64

    def get(self, key, default=None):
        self._n += 1
        if self._n > self._bound:
            raise ToposortBoundExceeded("toposort made more than %d successor lookups on a graph of %d vertices"
                                        % (self._bound, len(self._g)))
        return self._g.get(key, default)

    def __getitem__(self, key):
        return self.get(key, ())

    def __contains__(self, key):
        return key in self._g

    def __iter__(self):
        return iter(self._g)

    def __len__(self):
        return len(self._g)

    def keys(self):
        return self._g.keys()

    def values(self):
        return self._g.values()

    def items(self):
        return self._g.items()


def install_toposort(rng=None, contract_every=1):
    """Replace tasks.toposort by a wrapper that (a) shuffles the start set with `rng` (every
    permutation of a set's iteration order is an order the program can really have) and
    (b) checks the post-condition on every `contract_every`-th call."""
    import xdeps.tasks as T
    import xdeps.sorting as S
    real = _installed.setdefault("toposort_real", S.toposort)
    state = {"rng": rng, "every": contract_every, "n": 0}
    _installed["toposort_state"] = state

    def toposort(graph, start=None, *args, **kwargs):
        COUNTS["toposort_calls"] += 1
        st = _installed["toposort_state"]
        if args or kwargs:
            # a signature this wrapper does not know (the code under test changed it): pass through
            # unchanged; the post-condition below is only defined for toposort(graph, start)
            return real(graph, start, *args, **kwargs)
        if start is not None:
            start = list(start)
            if st["rng"] is not None and len(start) > 1:
                st["rng"].shuffle(start)
                COUNTS["shuffles"] += 1
        if start is not None and st["every"]:
            res = real(_CountingGraph(graph), start)
        else:
            res = real(graph, start)
        st["n"] += 1
        if start is not None and st["every"] and st["n"] % st["every"] == 0:
            COUNTS["toposort_contract_checks"] += 1
            check_toposort_contract(graph, start, res)
        return res
    T.toposort = toposort
    return state


def set_shuffle_rng(rng):
    _installed["toposort_state"]["rng"] = rng


# -- M4: index supports -----------------------------------------------------------

def derive_indices(mgr):
    dept, tart, rdeps, rtasks = {}, {}, {}, {}
    tasks = mgr.tasks
    tg = {tid: set(t.targets) for tid, t in tasks.items()}
    dp = {tid: set(t.dependencies) for tid, t in tasks.items()}
    for tid in tasks:
        for d in dp[tid]:
            dept.setdefault(d, set()).add(tid)
            for x in tg[tid]:
                rdeps.setdefault(d, set()).add(x)
        for x in tg[tid]:
            tart.setdefault(x, set()).add(tid)
    # rtasks[a] contains b  <=>  targets(a) & deps(b) != {}
    for x, writers in tart.items():
        readers = dept.get(x)
        if readers:
            for a in writers:
                rtasks.setdefault(a, set()).update(readers)
    return {"rdeps": rdeps, "rtasks": rtasks, "deptasks": dept, "tartasks": tart}


def index_supports(mgr):
    return {n: {k: set(v) for k, v in getattr(mgr, n).items() if len(v)}
            for n in ("rdeps", "rtasks", "deptasks", "tartasks")}


def declared_vs_expression(mgr):
    """An expression task must declare exactly what its current expression reads / its target writes."""
    out = []
    for tid, t in mgr.tasks.items():
        expr = getattr(t, "expr", None)
        if expr is None or not hasattr(expr, "_get_dependencies"):
            continue
        real = expr._get_dependencies()
        if set(t.dependencies) != set(real):
            out.append("task %s declares dependencies %s but its expression %s reads %s" % (
                tid, sorted(map(str, t.dependencies)), expr, sorted(map(str, real))))
        if set(t.targets) != set(tid._get_dependencies()):
            out.append("task %s declares targets %s, its target reference implies %s" % (
                tid, sorted(map(str, t.targets)), sorted(map(str, tid._get_dependencies()))))
    return out


def index_violations(mgr):
    sup, der = index_supports(mgr), derive_indices(mgr)
    out = declared_vs_expression(mgr)
    for n in sup:
        if sup[n] != der[n]:
            for k in set(sup[n]) | set(der[n]):
                a, b = sup[n].get(k, set()), der[n].get(k, set())
                if a != b:
                    out.append("%s[%s]: stale=%s missing=%s" % (
                        n, k, sorted(map(str, a - b)), sorted(map(str, b - a))))
    return out


# -- graph predicates -------------------------------------------------------------

def rtasks_graph(mgr):
    return {k: list(v) for k, v in mgr.rtasks.items() if len(v)}


def has_structural_cycle(mgr, among=None):
    """Is there a non-trivial SCC in the manager's ordering graph (restricted to `among`)?"""
    g = rtasks_graph(mgr)
    if among is not None:
        among = set(among)
        g = {k: [x for x in v if x in among] for k, v in g.items() if k in among}
    comp = sccs(g)
    return any(size > 1 for _, size in comp.values())


def declared_structural_cycle(mgr):
    """A non-trivial SCC in the graph a -> b iff targets(a) & dependencies(b), built from the task OBJECTS (what each
    task declares), not from the manager's rtasks index."""
    tasks = dict(mgr.tasks)
    by_dep = {}
    for tid, t in tasks.items():
        for d in t.dependencies:
            by_dep.setdefault(d, set()).add(tid)
    g = {tid: set() for tid in tasks}
    for tid, t in tasks.items():
        for x in t.targets:
            g[tid] |= by_dep.get(x, set())
    comp = sccs({k: [x for x in v if x != k] for k, v in g.items()})
    return any(size > 1 for _, size in comp.values())


def triggered(mgr, ref):
    """Task ids reachable in the ordering graph from the tasks reading ref or its owners."""
    start = set()
    for d in ref._get_dependencies():
        start.update(mgr.deptasks.get(d, ()))
    seen = set()
    todo = list(start)
    while todo:
        t = todo.pop()
        if t in seen:
            continue
        seen.add(t)
        todo.extend(mgr.rtasks.get(t, ()))
    return seen


def ck_to_path(ck):
    return [ck[0]] + [["i", enc(k)] if kind == "i" else ["a", k] for kind, k in ck[1:]]


def task_kinds(shadow):
    kinds = {name: "knob" for name in shadow.knobs}
    kinds.update({name: "ftask" for name in shadow.ftasks})
    return kinds


def shadow_structural_cycle(shadow, runner):
    """Does the structural graph of the CURRENT definitions (from the shadow) contain a non-trivial SCC?
    Configuration independent and blind to stale edges in the manager."""
    comp = sccs(structural_graph(writers_and_reads(shadow, runner), task_kinds(shadow)))
    return any(size > 1 for _, size in comp.values())


def writers_and_reads(shadow, runner):
    """For the KF1 classifier: per task id, the locations it really writes and really reads."""
    info = {}
    for ck in shadow.defs:
        info[runner.mkref(ck_to_path(ck))] = ({ck}, shadow.reads(ck))
    for name, ft in shadow.ftasks.items():
        info[name] = ({ft["target"]}, {shadow.ckey(p) for p in ft["deps"]})
    for name, kb in shadow.knobs.items():
        info[name] = (set(kb["targets"]), {shadow.ckey(kb["source"])})
    return info


def _related(w, r):
    n = min(len(w), len(r))
    return w[:n] == r[:n]


def inversions(run_order, info):
    """Pairs (producer, consumer) of tasks with a true data-flow edge that ran consumer first."""
    pos = {}
    for i, t in enumerate(run_order):
        pos.setdefault(t, i)
    inv = []
    ran = [t for t in info if t in pos]
    for p in ran:
        wp = info[p][0]
        for t in ran:
            if t is p or t == p:
                continue
            if any(_related(w, r) for w in wp for r in info[t][1]) and pos[t] < pos[p]:
                inv.append((p, t))
    return inv


def structural_graph(info, kinds=None):
    """The ordering graph the library's design produces FROM THE TRUE read/write sets: a task lists its
    target and the target's owners as targets, and every read location with its owners as dependencies,
    so a -> b iff a written and a read location share their first-level container (or are the same flat
    location).  Linear knobs list neither owners of their source nor of their targets.
    Stale or spurious edges of a broken manager are NOT in this graph."""
    kinds = kinds or {}
    g = {}
    for a, (wa, _) in info.items():
        for b, (_, rb) in info.items():
            edge = False
            for w in wa:
                for r in rb:
                    if kinds.get(a) == "knob":
                        edge = edge or (len(w) <= len(r) and r[:len(w)] == w)      # target is r or an owner of r
                    elif kinds.get(b) == "knob":
                        edge = edge or (len(r) <= len(w) and w[:len(r)] == r)      # source is w or an owner of w
                    else:
                        edge = edge or w[:2] == r[:2]
                    if edge:
                        break
                if edge:
                    break
            if edge:
                g.setdefault(a, []).append(b)
    return g


def classify_kf1(mgr, run_order, info, kinds=None):
    """KF1 (structural false cycle) iff there is at least one run-order inversion w.r.t. the true data
    flow and every inversion lies inside one non-trivial SCC of the STRUCTURAL graph derived from the
    true read/write sets (not of mgr.rtasks: a cycle made of stale edges is not excused)."""
    inv = inversions(run_order, info)
    if not inv:
        return False, "no run-order inversion", inv
    comp = sccs(structural_graph(info, kinds))
    for p, t in inv:
        cp, ct = comp.get(p), comp.get(t)
        if cp is None or ct is None or cp[0] != ct[0] or cp[1] < 2:
            return False, "inversion %s before %s outside any structural cycle" % (t, p), inv
    return True, "all %d inversions inside structural cycles" % len(inv), inv


# -- M5: reach counters (informational evidence, never part of a verdict) ---------------------------

REACH = {}


def install_reach_counters():
    """Count entries of the anchored functions with sys.monitoring (PY_START on their code objects).
    Functions are looked up by qualified name and silently skipped if absent (a refactoring that
    renames internals must not turn a holding property into an alarm)."""
    import sys
    if "reach" in _installed or not hasattr(sys, "monitoring"):
        return
    import xdeps.sorting as S
    import xdeps.tasks as T
    mon = sys.monitoring
    tool = 3
    try:
        mon.use_tool_id(tool, "xdverif-reach")
    except ValueError:
        return
    wanted = {"Manager.set_value": T.Manager, "Manager.register": T.Manager, "Manager.unregister": T.Manager,
              "Manager.find_taskids": T.Manager, "Manager.run_tasks": T.Manager, "Manager.load": T.Manager,
              "Manager.refresh": T.Manager, "Manager.cleanup": T.Manager, "Manager.clone": T.Manager,
              "Manager.verify": T.Manager, "Manager.copy_expr_from": T.Manager, "Manager.mk_fun": T.Manager,
              "ExprTask.run": T.ExprTask, "FunctionTask.run": T.FunctionTask, "LinearKnob.run": T.LinearKnob}
    codes = {}
    for qual, cls in wanted.items():
        fn = cls.__dict__.get(qual.split(".")[1])
        fn = getattr(fn, "__wrapped__", fn)
        code = getattr(fn, "__code__", None)
        if code is not None:
            codes[code] = qual
    for name in ("toposort", "_dfs"):
        fn = _installed.get("toposort_real") if name == "toposort" else getattr(S, name, None)
        fn = fn or getattr(S, name, None)
        if fn is not None and hasattr(fn, "__code__"):
            codes[fn.__code__] = "sorting." + name

    def on_start(code, offset):
        q = codes.get(code)
        if q is not None:
            REACH[q] = REACH.get(q, 0) + 1
    mon.register_callback(tool, mon.events.PY_START, on_start)
    for code in codes:
        mon.set_local_events(tool, code, mon.events.PY_START)
    _installed["reach"] = True
