"""Observers and generators for the optimizer checks (C09, C10, C15, C16).

* problem specs are JSON-able and deterministic (replayable);
* TraceDict is the knob container: it records every write with the `active` flag of the
  knob at the moment of the write;
* FaultyAction raises at chosen call numbers (fault enumeration for C09);
* install_lstsq_contract wraps SVD.lstsq (class level) so that EVERY call made by any optimizer
  workload is compared with an independently computed truncated-SVD minimum-norm solution.
"""
import math

import numpy as np

LSTSQ = {"calls": 0, "violations": [], "worst_rel_err": 0.0}
_installed = {}


class InjectedActionFault(Exception):
    pass


class TraceDict(dict):
    def __init__(self, *a, **k):
        super().__init__(*a, **k)
        self.log = []
        self.vary = None

    def __setitem__(self, k, v):
        act = None if self.vary is None else bool(self.vary[k].active)
        self.log.append((k, float(v), act, float(self.get(k, float("nan")))))
        dict.__setitem__(self, k, v)


def quiet():
    import warnings
    from xdeps.general import _print
    _print.suppress = True
    warnings.simplefilter("ignore")


# ---- problem families ----------------------------------------------------------------------

def gen_pinned(rng):
    """One knob whose solution lies just beyond a limit, with a finite-difference step of the size of the
    tolerance: the point pinned on the limit is NOT within tolerance, the Jacobian's probe point next to it
    may be.  (A solve that ends on the limit must fail and restore, whatever was evaluated last.)"""
    m = rng.randint(1, 2)
    s = rng.choice([1e-3, 1e-2, 1e-4])
    upper = rng.random() < 0.7
    pin = rng.uniform(0.5, 1.5) * rng.choice([-1, 1])
    a = [rng.choice([-1, 1]) * rng.uniform(0.5, 2.0) for _ in range(m)]
    beyond = pin + (2 * s if upper else -2 * s)
    spec = {"n": 1, "m": m, "kind": "lin", "A": [[v] for v in a], "shift": [2.0] * m,
            "tars": [v * beyond for v in a], "x0": [pin - rng.uniform(0.2, 1.0) * (1 if upper else -1)],
            "limits": [(pin - 3.0, pin) if upper else (pin, pin + 3.0)],
            "max_step": [None], "wv": [rng.choice([1.0, 1.0, 0.25])], "wt": [1.0] * m,
            "tol": [1.5 * s * abs(v) for v in a], "dis_v": [False], "dis_t": [False] * m,
            "n_steps_max": rng.choice([10, 25, 40]), "broyden": rng.choice([False, False, True]), "step": s,
            "family": "pinned"}
    return spec


def gen_problem(rng, families=("lin", "quad", "trig", "pole", "incons", "rankdef"), hard_limits=False):
    n = rng.randint(1, 4)
    m = rng.randint(1, 5)
    kind = rng.choice(families)
    if kind == "pinned":
        return gen_pinned(rng)
    A = [[rng.uniform(-2, 2) for _ in range(n)] for _ in range(m)]
    if kind == "rankdef" and n >= 2:
        for row in A:
            row[-1] = 2.0 * row[0]            # dependent columns
        if m >= 2:
            A[-1] = [0.5 * v for v in A[0]]   # dependent rows (consistent)
    xs = [rng.uniform(-3, 3) for _ in range(n)]
    spec = {"n": n, "m": m, "kind": kind, "A": A, "shift": [rng.uniform(1.5, 3.0) for _ in range(m)]}
    f = make_f(spec)
    tars = [float(v) for v in f(np.array(xs))]
    if kind == "incons":
        tars = [t + rng.uniform(0.5, 2.0) * (1 if i % 2 else -1) for i, t in enumerate(tars)] if m > n else tars
    if kind == "bowl":
        tars = [t if rng.random() < 0.5 else rng.uniform(-1.0, 0.5) for t in tars]      # some unreachable
    x0 = [rng.uniform(-1, 1) for _ in range(n)]
    if hard_limits:
        # the unconstrained solution lies outside the limits or far away
        lim = [(-rng.uniform(1.0, 1.5), rng.uniform(1.0, 1.5)) if rng.random() < 0.8 else None for _ in range(n)]
        tars = [float(v) for v in f(np.array([rng.choice([-1, 1]) * rng.uniform(2.0, 6.0) for _ in range(n)]))]
    else:
        lim = [(-rng.uniform(1, 4), rng.uniform(1, 4)) if rng.random() < 0.6 else None for _ in range(n)]
    # limits written as plain integers for EVERY knob (as hand-written limits usually are)
    if rng.random() < 0.12:
        lim = [(-rng.randrange(1, 5), rng.randrange(1, 5)) if l is None else (int(math.floor(l[0])), int(math.ceil(l[1]))) for l in lim]
    # special values: a bound that is exactly zero (on the side that keeps the start point inside)
    for i in range(n):
        if lim[i] is not None and rng.random() < 0.3 and x0[i] != 0:
            lim[i] = (0.0, lim[i][1]) if x0[i] > 0 else (lim[i][0], rng.choice([0.0, -0.0, 0]))
    # start points a few parts per million (or a few ulps) INSIDE a limit: legal, and where any "close enough to the limit"
    # shortcut in the knob <-> solver-unit conversions shows
    if rng.random() < 0.15:
        for i in range(n):
            if lim[i] is not None and rng.random() < 0.7:
                side = 1 if rng.random() < 0.5 else 0
                b = float(lim[i][side])
                d = abs(b) * rng.choice([3e-6, 1e-7, 1e-9, 4e-16]) if b != 0 else rng.choice([1e-9, 1e-12])
                x0[i] = b - d if side else b + d
    spec.update({
        "tars": tars, "x0": x0, "limits": lim,
        "max_step": [rng.choice([None, None, 0.1, 0.5, 2.0]) for _ in range(n)],
        "wv": [rng.choice([1.0, 1.0, 1.0, 0.25, 3.0]) for _ in range(n)],
        "wt": [rng.choice([1.0, 1.0, 10.0, 0.1]) for _ in range(m)],
        "tol": [rng.choice([1e-7, 1e-5, 1e-9]) for _ in range(m)],
        "dis_v": [rng.random() < 0.2 for _ in range(n)],
        "dis_t": [rng.random() < 0.2 for _ in range(m)],
        "n_steps_max": rng.choice([1, 3, 10, 25]),
        "broyden": rng.choice([False, False, True, 2, 3]),
        "step": rng.choice([1e-7, 1e-8, 1e-6]),
    })
    if all(spec["dis_v"]):
        spec["dis_v"][0] = False
    if all(spec["dis_t"]):
        spec["dis_t"][0] = False
    return spec


def make_f(spec):
    A = np.array(spec["A"], dtype=float)
    kind = spec["kind"]
    shift = np.array(spec["shift"], dtype=float)
    if kind in ("lin", "incons", "rankdef"):
        return lambda x: A @ np.asarray(x, dtype=float)
    if kind == "quad":
        return lambda x: A @ np.asarray(x, float) + 0.3 * (A @ np.asarray(x, float)) ** 2
    if kind == "trig":
        return lambda x: np.sin(A @ np.asarray(x, float)) + A @ np.asarray(x, float)
    if kind == "bowl":
        # non-negative parabolas: targets below the minimum are unreachable, Newton steps near the bottom overshoot
        return lambda x: (A @ np.asarray(x, float)) ** 2 + 1.0
    if kind == "pole":
        def f(x):
            z = A @ np.asarray(x, float)
            with np.errstate(all="ignore"):
                return 1.0 / (z + shift) + 0.1 * z
        return f
    raise ValueError(kind)


class Setup:
    """A live optimisation problem built from a spec."""

    def __init__(self, spec, garbage=None, fault_at=None, persistent=False, weights=True):
        import xdeps as xd
        quiet()
        self.spec = spec
        base = make_f(spec)
        self.calls = 0
        self.fault_at = fault_at
        self.persistent = persistent
        outer = self

        def f(x):
            y = np.array(base(x), dtype=float)
            if garbage is not None:
                for i, dt in enumerate(spec["dis_t"]):
                    if dt:
                        y[i] = garbage * (1 + i) + float(np.sum(x)) * 7
            return y
        self.f = base

        class Act(xd.Action):
            def run(self_inner):
                outer.calls += 1
                if outer.fault_at is not None and (outer.calls == outer.fault_at or
                                                   (outer.persistent and outer.calls >= outer.fault_at)):
                    raise InjectedActionFault("action fault at call %d" % outer.calls)
                return dict(enumerate(f(np.array([outer.cont[nm] for nm in outer.names], dtype=float))))
        self.cont = TraceDict({"k%d" % i: float(v) for i, v in enumerate(spec["x0"])})
        self.names = list(self.cont)
        self.act = Act()
        # split_actions: one action object per target (each evaluates the model and returns only its own component), as
        # when targets come from different computations of the user's model
        class ActOne(xd.Action):
            def __init__(self_inner, i):
                self_inner.i = i

            def run(self_inner):
                outer.calls += 1
                if outer.fault_at is not None and (outer.calls == outer.fault_at or
                                                   (outer.persistent and outer.calls >= outer.fault_at)):
                    raise InjectedActionFault("action fault at call %d" % outer.calls)
                return {self_inner.i: f(np.array([outer.cont[nm] for nm in outer.names], dtype=float))[self_inner.i]}
        split = bool(spec.get("split_actions"))
        acts = [ActOne(i) for i in range(spec["m"])] if split else None
        n = spec["n"]
        wv = spec["wv"] if weights else [1.0] * n
        wt = spec["wt"] if weights else [1.0] * spec["m"]
        self.vary = [xd.Vary(nm, self.cont, limits=spec["limits"][i], step=spec["step"], max_step=spec["max_step"][i],
                             weight=wv[i], tag="v%d" % i) for i, nm in enumerate(self.names)]
        self.cont.vary = {v.name: v for v in self.vary}
        optlog = spec.get("optlog") or [False] * spec["m"]
        self.targets = [(acts[i] if split else self.act).target(i, float(v), tol=spec["tol"][i], weight=wt[i], tag="t%d" % i,
                                        **({"optimize_log": True} if optlog[i] else {}))
                        for i, v in enumerate(spec["tars"])]
        self.opt = xd.Optimize(self.vary, self.targets, n_steps_max=spec["n_steps_max"], show_call_counter=False,
                               check_limits=spec.get("check_limits", True))
        self.cont.log.clear()

    def knobs(self):
        return [self.cont[nm] for nm in self.names]

    def flags(self):
        return [bool(v.active) for v in self.vary], [bool(t.active) for t in self.targets]

    def residuals(self, knobs=None):
        x = np.array(self.knobs() if knobs is None else knobs, dtype=float)
        return self.f(x) - np.array(self.spec["tars"], dtype=float)

    def penalty(self, knobs, target_active, wt=None):
        r = self.residuals(knobs)
        wt = np.array([t.weight for t in self.targets], dtype=float)
        r = np.where(np.array(target_active, dtype=bool), r * wt, 0.0)
        return math.sqrt(float(np.dot(r, r)))


def mask_from_string(s):
    return [c == "y" for c in s]


# ---- contract on SVD.lstsq ----------------------------------------------------------------------

def install_lstsq_contract():
    """Wrap SVD.lstsq at class level; every call is compared with the minimum-norm least-squares
    solution restricted to the singular values kept by rcond and sing_val_cutoff, recomputed here."""
    from xdeps.optimize import matrixutils as MU
    if "lstsq" in _installed:
        return
    orig = MU.SVD.lstsq

    def lstsq(self, b, rcond=None, sing_val_cutoff=None):
        x = orig(self, b, rcond=rcond, sing_val_cutoff=sing_val_cutoff)
        LSTSQ["calls"] += 1
        try:
            why = check_lstsq(self.matrix, b, x, self.rcond if rcond is None else rcond,
                              self.sing_val_cutoff if sing_val_cutoff is None else sing_val_cutoff)
        except Exception as exc:  # the contract itself must never disturb the optimizer
            why = "contract evaluation failed: %s" % exc
        if why and len(LSTSQ["violations"]) < 10:
            LSTSQ["violations"].append({"what": why, "matrix": np.asarray(self.matrix).tolist(), "b": np.asarray(b).tolist(),
                                        "rcond": rcond, "sing_val_cutoff": sing_val_cutoff})
        return x
    MU.SVD.lstsq = lstsq
    _installed["lstsq"] = True


def reference_lstsq(matrix, b, rcond, cutoff):
    """sum over kept singular values of (u_i . b / s_i) v_i, computed with numpy's SVD here."""
    A = np.asarray(matrix, dtype=float)
    if A.size == 0:
        return np.array([]), None
    U, s, Vh = np.linalg.svd(A, full_matrices=False)
    k = len(s) if cutoff is None else min(cutoff, len(s))
    x = np.zeros(A.shape[1])
    kept = []
    for i in range(k):
        if s[i] > 0 and not (rcond is not None and s[i] < rcond * s[0]):
            x = x + (U[:, i] @ np.asarray(b, dtype=float)) / s[i] * Vh[i, :]
            kept.append(s[i])
    return x, kept


def check_lstsq(matrix, b, x, rcond, cutoff):
    A = np.asarray(matrix, dtype=float)
    if A.size == 0:
        return None if len(np.atleast_1d(x)) == 0 else "non-empty solution for an empty system"
    if not (np.all(np.isfinite(A)) and np.all(np.isfinite(b))):
        return None
    ref, kept = reference_lstsq(A, b, rcond, cutoff)
    x = np.asarray(x, dtype=float)
    if x.shape != ref.shape:
        return "solution has shape %s, expected %s" % (x.shape, ref.shape)
    if not kept:
        return None if np.all(x == 0) else "no singular value kept but the solution is not zero: %s" % x
    s = np.linalg.svd(A, compute_uv=False)
    # singular values within rounding of the rcond threshold may legitimately fall on either side
    if rcond is not None and any(abs(v - rcond * s[0]) <= 1e-9 * s[0] for v in s):
        return None
    cond = kept[0] / kept[-1]
    scale = np.linalg.norm(ref) + np.linalg.norm(np.asarray(b, float)) / kept[-1]
    err = np.linalg.norm(x - ref)
    tol = 1e3 * np.finfo(float).eps * cond * max(scale, 1e-300)
    if scale > 0:
        LSTSQ["worst_rel_err"] = max(LSTSQ["worst_rel_err"], float(err / scale))
    if not err <= tol:
        return "lstsq returned %s, the truncated-SVD minimum-norm solution is %s (|diff| %.3g > tol %.3g, cond %.3g)" % (
            x, ref, err, tol, cond)
    return None
