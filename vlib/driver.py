"""Driver: plans shards, runs workers, merges results, writes evidence (DESIGN 2.2, 2.5)."""
import argparse
import concurrent.futures as cf
import glob
import hashlib
import importlib
import json
import os
import subprocess
import sys
import time

from . import build

VERIF = build.VERIF
NCPU = int(os.environ.get("VERIF_JOBS", "0")) or (os.cpu_count() or 4)


def _merge_counters(dst, src):
    for k, v in src.items():
        if isinstance(v, bool):
            dst[k] = dst.get(k, False) or v
        elif isinstance(v, (int, float)):
            dst[k] = dst.get(k, 0) + v
        elif isinstance(v, dict):
            _merge_counters(dst.setdefault(k, {}), v)
        elif isinstance(v, list):
            cur = dst.setdefault(k, [])
            for x in v:
                if x not in cur and len(cur) < 40:
                    cur.append(x)
        else:
            dst.setdefault(k, v)


def run_worker(check_id, spec, idx, timeout):
    sdir = os.path.join(build.scratch_root(), "shards")
    os.makedirs(sdir, exist_ok=True)
    spec_path = os.path.join(sdir, "%s-%d.spec.json" % (check_id, idx))
    out_path = os.path.join(sdir, "%s-%d.out.json" % (check_id, idx))
    spec = dict(spec)
    spec.setdefault("watchdog_s", max(30, int(timeout * 0.9)))
    with open(spec_path, "w") as fh:
        json.dump(spec, fh)
    env = build.worker_env(spec.get("mode", "pure"), spec.get("hashseed", 0), spec.get("env"))
    cmd = [build.PY, "-X", "faulthandler", "-m", "vlib.worker", check_id, spec_path, out_path]
    t0 = time.time()
    try:
        p = subprocess.run(cmd, env=env, cwd=VERIF, capture_output=True, text=True, timeout=timeout)
        rc, out, err = p.returncode, p.stdout, p.stderr
    except subprocess.TimeoutExpired as exc:
        rc, out, err = "timeout", str(exc.stdout or "")[-2000:], str(exc.stderr or "")[-4000:]
    res = None
    if os.path.exists(out_path):
        try:
            with open(out_path) as fh:
                res = json.load(fh)
        except Exception:
            res = None
    return {"spec": spec, "rc": rc, "stdout": out[-4000:], "stderr": err[-8000:], "result": res,
            "wall_s": time.time() - t0}


def _san_reports():
    logdir = os.path.join(build.scratch_root(), "sanlogs")
    reports = []
    for p in sorted(glob.glob(os.path.join(logdir, "*"))):
        try:
            txt = open(p, errors="replace").read()
        except OSError:
            continue
        if txt.strip():
            reports.append({"file": os.path.basename(p), "head": txt[:3000],
                            "blocks": txt.count("ERROR: AddressSanitizer") + txt.count("runtime error:")})
    return reports


def main(argv=None):
    ap = argparse.ArgumentParser()
    ap.add_argument("id")
    ap.add_argument("--tier", default=os.environ.get("VERIF_TIER", "quick"), choices=["quick", "thorough"])
    ap.add_argument("--replay")
    ap.add_argument("--seed", type=int, default=None)
    args = ap.parse_args(argv)
    cid = args.id.upper()
    seed = args.seed if args.seed is not None else int(os.environ.get("VERIF_SEED", "0") or 0)
    mod = importlib.import_module("checks." + cid.lower())
    t0 = time.time()

    if args.replay:
        with open(args.replay) as fh:
            wit = json.load(fh)
        spec = dict(wit.get("spec") or {})
        spec["replay"] = wit
        plan = [spec]
    else:
        plan = mod.plan(args.tier, seed)
    for i, s in enumerate(plan):
        s.setdefault("tier", args.tier)
        s.setdefault("seed", seed)
        s.setdefault("shard", i)
    modes = sorted({s.get("mode", "pure") for s in plan})
    try:
        for m in modes:
            build.overlay(m)
    except Exception as exc:
        print("INCONCLUSIVE property=%s reason=build-failed: %s" % (cid, str(exc)[:2000]))
        return 2
    timeout = getattr(mod, "TIMEOUT", {"quick": 900, "thorough": 7200})[args.tier]
    jobs = min(NCPU, len(plan)) or 1
    with cf.ThreadPoolExecutor(jobs) as ex:
        runs = list(ex.map(lambda t: run_worker(cid, t[1], t[0], timeout), enumerate(plan)))

    counters, digests, samples, violations, known, inconclusive = {}, set(), [], [], [], []
    shard_table = []
    evaluations = 0
    for r in runs:
        spec, res = r["spec"], r["result"]
        row = {"mode": spec.get("mode", "pure"), "hashseed": spec.get("hashseed", 0), "shard": spec["shard"],
               "wall_s": round(r["wall_s"], 2)}
        if r["rc"] == "timeout":
            inconclusive.append("watchdog: shard %d exceeded %ss" % (spec["shard"], timeout))
            row["state"] = "timeout"
        elif isinstance(r["rc"], int) and r["rc"] < 0:
            violations.append({"what": "worker killed by signal %d while executing a legal workload" % -r["rc"],
                               "spec": spec, "stderr": r["stderr"][-3000:]})
            row["state"] = "signal %d" % -r["rc"]
        elif res is None or not res.get("ok"):
            why = (res or {}).get("error") or ("rc=%s stderr=%s" % (r["rc"], r["stderr"][-1500:]))
            if "Timeout" in r["stderr"][-3000:] and res is None:
                inconclusive.append("watchdog inside shard %d" % spec["shard"])
            else:
                inconclusive.append("worker failed in shard %d: %s" % (spec["shard"], why))
            if res and res.get("traceback"):
                sys.stderr.write(res["traceback"])
            row["state"] = "failed"
        else:
            row["state"] = "ok"
            row["evaluations"] = res.get("evaluations", 0)
            evaluations += res.get("evaluations", 0)
            digests.update(res.get("digests", ()))
            for s in res.get("samples", ()):
                if len(samples) < 6:
                    samples.append(s)
            _merge_counters(counters, res.get("counters", {}))
            for v in res.get("violations", ()):
                v.setdefault("spec", spec)
                violations.append(v)
            known.extend(res.get("known", ()))
        shard_table.append(row)

    extra = {}
    if hasattr(mod, "merge") and not args.replay:
        ok_results = [(r["spec"], r["result"]) for r in runs if r["result"] and r["result"].get("ok")]
        extra = mod.merge(ok_results, args.tier, seed) or {}
        violations.extend(extra.pop("violations", ()))
        known.extend(extra.pop("known", ()))
        inconclusive.extend(extra.pop("inconclusive", ()))
        _merge_counters(counters, extra.pop("counters", {}))
    san = _san_reports() if "asan" in modes else None
    if san is not None:
        counters["sanitizer_report_files"] = len(san)
        counters["sanitizer_report_blocks"] = sum(x["blocks"] for x in san)
        for x in san:
            violations.append({"what": "sanitizer report: " + x["head"][:400], "sanitizer": x})

    # deciding counters: zero means the monitor never decided anything
    for name in (() if args.replay else getattr(mod, "DECIDING", ())):
        if not counters.get(name):
            inconclusive.append("deciding counter %s is zero" % name)

    # known findings: one line per (kf, property)
    seen = {}
    for k in known:
        seen.setdefault(k["kf"], k)
    kf_lines = ["KNOWN-FINDING: property=%s %s: %s" % (cid, kf, k["what"]) for kf, k in sorted(seen.items())]
    counters["known_finding_hits"] = {kf: sum(1 for k in known if k["kf"] == kf) for kf in seen}

    rdir = os.environ.get("VERIF_REPLAY_DIR") or os.path.join(VERIF, "replays")
    vlines = []
    if violations:
        os.makedirs(rdir, exist_ok=True)
    for n, v in enumerate(violations[:20]):
        path = os.path.join(rdir, "%s-%d-%d.json" % (cid, seed, n))
        with open(path, "w") as fh:
            json.dump(v, fh, indent=1, default=repr)
        vlines.append("VIOLATION property=%s replay=%s" % (cid, path))
        sys.stderr.write("--- violation %d: %s\n" % (n, str(v.get("what"))[:1500]))

    wall = time.time() - t0
    if not args.replay:
        cov = {
            "evaluations": int(evaluations),
            "distinct_nontrivial": len(digests),
            "rule": getattr(mod, "RULE", ""),
            "samples": samples or ["<none>"],
            "exhaustive": bool(counters.pop("exhaustive", False)),
            "counters": counters,
            "shards": shard_table,
            "modes": modes,
            "hashseeds": sorted({s.get("hashseed", 0) for s in plan}),
            "known_findings_reported": kf_lines,
            "inconclusive": inconclusive,
        }
        if mod.LEVEL == "translation_validation":
            cov["programs"] = int(counters.get("programs", evaluations))
            cov["disagreements_checked"] = int(counters.get("disagreements_checked", 0))
        cov.update(extra)
        ev = {
            "property_id": cid, "tier": args.tier, "seed": seed, "level": mod.LEVEL,
            "coverage": cov, "assumptions": list(getattr(mod, "ASSUMPTIONS", ())),
            "wall_s": round(wall, 2), "violations": len(violations),
        }
        edir = os.environ.get("VERIF_EVIDENCE_DIR") or os.path.join(VERIF, "evidence")
        os.makedirs(edir, exist_ok=True)
        tmp = os.path.join(edir, cid + ".json.tmp")
        with open(tmp, "w") as fh:
            json.dump(ev, fh, indent=1, default=repr)
        os.replace(tmp, os.path.join(edir, cid + ".json"))

    for line in kf_lines:
        print(line)
    if violations:
        for line in vlines:
            print(line)
        print("%s: %d violation(s) in %d evaluations (%.1fs)" % (cid, len(violations), evaluations, wall))
        return 1
    if inconclusive:
        for why in inconclusive[:10]:
            print("INCONCLUSIVE property=%s reason=%s" % (cid, why[:600]))
        return 2
    print("%s: held on %d evaluations (%d distinct non-trivial) in %.1fs [%s tier, seed %d, modes %s]" % (
        cid, evaluations, len(digests), wall, args.tier, seed, ",".join(modes)))
    return 0


def digest(obj):
    return hashlib.sha1(json.dumps(obj, sort_keys=True, default=repr).encode()).hexdigest()[:16]


if __name__ == "__main__":
    sys.exit(main())
