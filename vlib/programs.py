"""Worlds, paths, terms and the interpreter driving a real xdeps.Manager (DESIGN 2.3).

World   {"labels": {label: node}}  node = {"dict": [[key, node]..]} | {"list": [node..]} |
                                            {"obj": [[attr, node]..]} | {"fn": 1} | encoded value
Path    [label, step..]  step = ["i", key] | ["a", name] | ["k", path]   (key = encoded value;
        ["k", path] is an item step whose key is the ref at `path`: a computed key)
Term    ["ref", path] | ["lit", v] | ["litexpr", v] | ["bin", op, t, t] | ["un", op, t] |
        ["bi", name, t, t..] | ["call", fname, [t..], [[kw, t]..]]
Op      see Runner.exec_op
"""
import builtins
import math
import operator

from . import containers as C
from .values import dec, enc

BIN = {
    "add": operator.add, "sub": operator.sub, "mul": operator.mul, "matmul": operator.matmul,
    "truediv": operator.truediv, "floordiv": operator.floordiv, "mod": operator.mod,
    "pow": operator.pow, "and": operator.and_, "or": operator.or_, "xor": operator.xor,
    "lt": operator.lt, "le": operator.le, "ge": operator.ge, "gt": operator.gt,
    "rshift": operator.rshift, "lshift": operator.lshift,
}
# deferred equality has its own spelling (== between refs is structural by design)
DEFERRED_EQ = {"eq": ("_eq", operator.eq), "ne": ("_neq", operator.ne)}
IOPS = {
    "add": operator.iadd, "sub": operator.isub, "mul": operator.imul, "matmul": operator.imatmul,
    "truediv": operator.itruediv, "floordiv": operator.ifloordiv, "mod": operator.imod,
    "pow": operator.ipow, "and": operator.iand, "or": operator.ior, "xor": operator.ixor,
    "rshift": operator.irshift, "lshift": operator.ilshift,
}
UN = {"neg": operator.neg, "pos": operator.pos, "invert": operator.invert}
BI = {"abs": builtins.abs, "round": builtins.round, "divmod": builtins.divmod,
      "trunc": math.trunc, "floor": math.floor, "ceil": math.ceil}
ZERO_DIV_NAN = ("truediv", "floordiv", "mod")


def build_node(node, vpath):
    """Instantiate a world node as tracing containers."""
    if isinstance(node, dict):
        if "dict" in node:
            d = C.LogDict()
            d._vpath = vpath
            for k, sub in node["dict"]:
                key = dec(k)
                dict.__setitem__(d, key, build_node(sub, "%s[%r]" % (vpath, key)))
            return d
        if "list" in node:
            lst = C.LogList(build_node(sub, "%s[%d]" % (vpath, i)) for i, sub in enumerate(node["list"]))
            lst._vpath = vpath
            return lst
        if "obj" in node:
            o = C.LogObj(vpath)
            for k, sub in node["obj"]:
                object.__setattr__(o, k, build_node(sub, "%s.%s" % (vpath, k)))
            return o
        if "fn" in node:
            return C.FnBox(vpath)
    return dec(node)


def snapshot(obj, prefix, out=None):
    """Flatten container contents to {path text: value} (leaves only)."""
    if out is None:
        out = {}
    if isinstance(obj, dict):
        for k, v in obj.items():
            snapshot(v, "%s[%r]" % (prefix, k), out)
    elif isinstance(obj, list):
        for i, v in enumerate(obj):
            snapshot(v, "%s[%d]" % (prefix, i), out)
    elif isinstance(obj, C.LogObj):
        for k, v in obj._items().items():
            snapshot(v, "%s.%s" % (prefix, k), out)
    elif isinstance(obj, C.FnBox):
        pass
    else:
        out[prefix] = obj
    return out


def node_from_obj(obj):
    """World node describing the current contents of a live container (inverse of build_node)."""
    if isinstance(obj, dict):
        return {"dict": [[enc(k), node_from_obj(v)] for k, v in obj.items()]}
    if isinstance(obj, list):
        return {"list": [node_from_obj(v) for v in obj]}
    if isinstance(obj, C.LogObj):
        return {"obj": [[k, node_from_obj(v)] for k, v in obj._items().items()]}
    if isinstance(obj, C.FnBox):
        return {"fn": 1}
    return enc(obj)


def world_from_runner(runner):
    return {"labels": {label: node_from_obj(obj) for label, obj in runner.data.items()}}


def path_text(path):
    s = path[0]
    for st in path[1:]:
        if st[0] == "i":
            s += "[%r]" % (dec(st[1]),)
        elif st[0] == "a":
            s += "." + st[1]
        else:
            s += "[%s]" % path_text(st[1])
    return s


def term_paths(term, out=None):
    """All paths read by a term (including paths used as computed keys)."""
    if out is None:
        out = []
    k = term[0]
    if k == "ref":
        out.append(term[1])
        for st in term[1][1:]:
            if st[0] == "k":
                term_paths(["ref", st[1]], out)
    elif k == "bin":
        term_paths(term[2], out), term_paths(term[3], out)
    elif k == "un":
        term_paths(term[2], out)
    elif k == "bi":
        for t in term[2:]:
            term_paths(t, out)
    elif k == "call":
        for t in term[2]:
            term_paths(t, out)
        for _, t in term[3]:
            term_paths(t, out)
    return out


def term_depth(term):
    k = term[0]
    if k in ("ref", "lit", "litexpr"):
        return 1
    if k == "bin":
        return 1 + max(term_depth(term[2]), term_depth(term[3]))
    if k == "un":
        return 1 + term_depth(term[2])
    if k == "bi":
        return 1 + max(term_depth(t) for t in term[2:])
    if k == "call":
        subs = list(term[2]) + [t for _, t in term[3]]
        return 1 + max([term_depth(t) for t in subs] or [0])
    raise ValueError(term)


def is_deferred(term):
    """Does building this term produce a ref/expression (rather than a plain value)?"""
    k = term[0]
    if k in ("ref", "litexpr", "call"):
        return True
    if k == "lit":
        return False
    if k == "bin":
        return is_deferred(term[2]) or is_deferred(term[3])
    if k == "un":
        return is_deferred(term[2])
    if k == "bi":
        return is_deferred(term[2])
    raise ValueError(term)


class Runner:
    """Builds a world, a Manager over it, and executes ops on the real library."""

    def __init__(self, world, xdeps_mod=None, manager=None):
        import xdeps
        self.xd = xdeps_mod or xdeps
        self.world = world
        self.mgr = manager or self.xd.Manager()
        self.data = {}
        self.refs = {}
        for label, node in world["labels"].items():
            self.data[label] = build_node(node, label)
            # (world["label_names"]: the label the manager knows the container by, if not the internal one)
            self.refs[label] = self.mgr.ref(self.data[label], world.get("label_names", {}).get(label, label))
        self.named_tasks = {}

    # -- paths -----------------------------------------------------------------
    def mkref(self, path):
        x = self.refs[path[0]]
        for st in path[1:]:
            if st[0] == "i":
                x = x[dec(st[1])]
            elif st[0] == "a":
                x = getattr(x, st[1])
            else:
                x = x[self.mkref(st[1])]
        return x

    def read(self, path):
        x = self.data[path[0]]
        for st in path[1:]:
            if st[0] == "i":
                x = x[dec(st[1])]
            elif st[0] == "a":
                x = getattr(x, st[1])
            else:
                x = x[self.read(st[1])]
        return x

    def contents(self):
        out = {}
        for label, obj in self.data.items():
            snapshot(obj, label, out)
        return out

    # -- terms -----------------------------------------------------------------
    def build(self, term):
        k = term[0]
        if k == "ref":
            return self.mkref(term[1])
        if k == "lit":
            return dec(term[1])
        if k == "litexpr":
            return self.xd.refs.LiteralExpr(dec(term[1]))
        if k == "bin":
            a, b = self.build(term[2]), self.build(term[3])
            if term[1] in DEFERRED_EQ:
                meth, fn = DEFERRED_EQ[term[1]]
                if isinstance(a, self.xd.refs.BaseRef):
                    return getattr(a, meth)(b)
                if isinstance(b, self.xd.refs.BaseRef):
                    cls = self.xd.refs.EqExpr if term[1] == "eq" else self.xd.refs.NeExpr
                    return cls(a, b)
                return fn(a, b)
            return BIN[term[1]](a, b)
        if k == "un":
            return UN[term[1]](self.build(term[2]))
        if k == "bi":
            args = [self.build(t) for t in term[2:]]
            return BI[term[1]](*args)
        if k == "call":
            f = getattr(self.refs["f"], term[1])
            args = [self.build(t) for t in term[2]]
            kwargs = {kw: self.build(t) for kw, t in term[3]}
            return f(*args, **kwargs)
        raise ValueError(term)

    def assign(self, path, value):
        """parent[key] = value / parent.attr = value, as user code would write it."""
        parent = self.refs[path[0]] if len(path) == 2 else self.mkref(path[:-1])
        st = path[-1]
        if st[0] == "i":
            parent[dec(st[1])] = value
        elif st[0] == "a":
            setattr(parent, st[1], value)
        else:
            parent[self.mkref(st[1])] = value

    def make_task(self, op):
        """Build (not register) the FunctionTask / LinearKnob described by an ftask / knob op."""
        if op[0] == "ftask":
            name, deps, target, weights, const = op[1:6]
            deps_r = [self.mkref(p) for p in deps]
            tref = self.mkref(target)

            def action(deps_r=deps_r, tref=tref, weights=[dec(w) for w in weights], const=dec(const)):
                acc = const
                for w, d in zip(weights, deps_r):
                    acc = acc + w * d._get_value()
                tref._set_value(acc)
            depset = set()
            for d in deps_r:
                depset |= d._get_dependencies()
            return self.xd.tasks.FunctionTask(name, action, tref._get_dependencies(), depset)
        name, source, weights, targets = op[1:5]
        return self.xd.tasks.LinearKnob(name, self.mkref(source), [dec(w) for w in weights],
                                        [self.mkref(t) for t in targets])

    # -- ops -------------------------------------------------------------------
    def exec_op(self, op):
        k = op[0]
        m = self.mgr
        if k == "set":          # ["set", path, ["v", val] | ["t", term]]
            val = dec(op[2][1]) if op[2][0] == "v" else self.build(op[2][1])
            self.assign(op[1], val)
        elif k == "iop":        # ["iop", path, opname, ["v", val] | ["t", term]]
            operand = dec(op[3][1]) if op[3][0] == "v" else self.build(op[3][1])
            x = self.mkref(op[1])
            x = IOPS[op[2]](x, operand)
            self.assign(op[1], x)
        elif k == "unreg":      # ["unreg", path]
            m.unregister(self.mkref(op[1]))
        elif k == "replace":    # ["replace", path, node]  container object replaced
            self.assign(op[1], build_node(op[2], path_text(op[1])))
        elif k == "ftask":      # ["ftask", name, [dep paths], target path, weights, const]
            task = self.make_task(op)
            m.register(task)
            self.named_tasks[op[1]] = task
            dep0 = self.mkref(op[2][0])
            m.set_value(dep0, dep0._get_value())   # first run (see shadow)
        elif k == "knob":       # ["knob", name, source path, [weights], [target paths]]
            task = self.make_task(op)
            m.register(task)
            self.named_tasks[op[1]] = task
        elif k == "load":       # ["load", [[path, term]..], overwrite]  (text form, as dump() produces)
            pairs = [(str(self.mkref(p)), str(self.build(t))) for p, t in op[1]]
            m.load(pairs, overwrite=op[2])
        elif k == "unreg_task":
            m.unregister(op[1])
            self.named_tasks.pop(op[1], None)
        elif k == "query":      # ["query", what, path]  read-only API calls (answers are judged elsewhere; here: no side effects)
            ref = self.mkref(op[2])
            what = op[1]
            if what == "find_deps":
                m.find_deps([ref])
            elif what == "find_tasks":
                list(m.find_tasks([ref]))
                list(m.find_tasks(ref._get_dependencies()))
            elif what == "find_tasks_all":
                list(m.find_tasks())
                list(m.find_taskids())
            elif what == "find_taskids":
                list(m.find_taskids([ref]))
                list(m.find_taskids(ref._get_dependencies()))
            elif what == "mk_fun":
                m.mk_fun("q", x=ref)
            elif what == "dump":
                m.dump()
            elif what == "ref_queries":
                ref._find_dependant_targets(), ref._tasks, ref._expr
            elif what == "iter_owner":
                list(m.iter_expr_tasks_owner(self.refs[op[2][0]]))
            elif what == "text":
                str(ref), repr(ref), hash(ref), ref._get_dependencies(), ref == self.mkref(op[2])
            elif what == "value":
                try:
                    ref._value
                    ref._get_value()
                except Exception:
                    pass
            else:
                raise ValueError("unknown query %r" % (what,))
        elif k == "refresh":
            m.refresh()
        elif k == "cleanup":
            m.cleanup()
        elif k == "verify":
            m.verify()
        elif k == "freeze":
            m.freeze_tree()
        elif k == "unfreeze":
            m.unfreeze_tree()
        else:
            raise ValueError("unknown op %r" % (op,))
