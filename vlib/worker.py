"""Worker process: runs one shard of one check against the overlay on PYTHONPATH."""
import faulthandler
import importlib
import json
import os
import sys
import time
import traceback


def main():
    check_id, spec_path, out_path = sys.argv[1:4]
    with open(spec_path) as fh:
        spec = json.load(fh)
    faulthandler.enable()
    try:
        import signal
        faulthandler.register(signal.SIGUSR1, all_threads=True)      # kill -USR1 <pid> dumps the stack
    except Exception:
        pass
    wd = spec.get("watchdog_s")
    if wd:
        faulthandler.dump_traceback_later(wd, exit=True)
    t0 = time.time()
    res = {"ok": False}
    try:
        import xdeps
        import xdeps.refs as R
        overlay = os.environ["XDEPS_VERIF_OVERLAY"]
        mode = os.environ["XDEPS_VERIF_MODE"]
        if not os.path.abspath(xdeps.__file__).startswith(os.path.abspath(overlay) + os.sep):
            raise RuntimeError("overlay-mismatch: xdeps imported from %s, expected under %s" % (xdeps.__file__, overlay))
        if R.is_cythonized() != (mode != "pure"):
            raise RuntimeError("overlay-mismatch: is_cythonized()=%s in mode %s" % (R.is_cythonized(), mode))
        mod = importlib.import_module("checks." + check_id.lower())
        res = mod.run_shard(spec)
        res["ok"] = True
    except BaseException as exc:  # noqa: report everything to the driver
        res = {"ok": False, "error": "%s: %s" % (type(exc).__name__, exc), "traceback": traceback.format_exc()}
        # An exception that escapes a check's workload from INSIDE the library (innermost frame in the xdeps overlay, Python
        # or Cython source) is a verdict, not a harness failure: the workloads only issue operations that are legal and do
        # not raise on a tree where the property holds (expected refusals are caught where they are expected).
        try:
            last = traceback.extract_tb(exc.__traceback__)[-1]
            fn = last.filename.replace(os.sep, "/")
            inside = isinstance(exc, Exception) and not isinstance(exc, (MemoryError, RecursionError)) and \
                ("/xdeps/" in fn or fn.startswith("xdeps/")) and "/verif/" not in fn and not spec.get("replay")
        except Exception:
            inside = False
        if inside:
            res = {"ok": True, "evaluations": 0, "digests": [], "samples": [], "counters": {"workload_aborted_by_library_exception": 1},
                   "known": [], "violations": [{
                       "what": "%s a legal operation of the workload raised %s: %s inside the library (%s:%s %s); the shard stopped there" % (
                           check_id, type(exc).__name__, str(exc)[:200], fn, last.lineno, last.name),
                       "traceback": traceback.format_exc()[-3000:], "shard": {k: v for k, v in spec.items() if k != "replay"}}]}
    res["wall_s"] = time.time() - t0
    tmp = out_path + ".tmp"
    with open(tmp, "w") as fh:
        json.dump(res, fh, default=repr)
    os.replace(tmp, out_path)
    faulthandler.cancel_dump_traceback_later()


if __name__ == "__main__":
    main()
