"""Overlay builds of /repo's working tree (DESIGN 2.1).

An overlay is a scratch directory <scratch>/<mode>/xdeps holding a copy of the
*.py files of /repo/xdeps (never the git-ignored, possibly stale extension that
lives in /repo).  Modes:

  pure      nothing else: refs.py runs as plain Python
  compiled  refs.py cythonized with the interpreter's default flags
  asan      refs.py cythonized with -fsanitize=address,undefined

The compiled artefacts are cached under /verif/.cache/build/<key>/ keyed by
the sha256 of refs.py + mode + tool versions, so that an edit to refs.py always
triggers a rebuild and an edit elsewhere never does.
"""
import atexit
import fcntl
import glob
import hashlib
import os
import shutil
import subprocess
import sys
import tempfile

REPO = os.environ.get("XDEPS_REPO", "/repo")
VERIF = os.path.dirname(os.path.dirname(os.path.abspath(__file__)))
PY = "/venv/bin/python"
CYTHONIZE = "/venv/bin/cythonize"
CACHE = os.path.join(VERIF, ".cache", "build")
MAX_CACHE = 6

_scratch = None


def scratch_root():
    """A private scratch directory outside /repo and /verif, removed at exit."""
    global _scratch
    if _scratch is None:
        base = "/dev/shm" if os.path.isdir("/dev/shm") and os.access("/dev/shm", os.W_OK) else None
        _scratch = tempfile.mkdtemp(prefix="xdverif-", dir=base)
        atexit.register(shutil.rmtree, _scratch, True)
    return _scratch


def _tool_versions():
    out = subprocess.run(
        [PY, "-c", "import sys, Cython; print(sys.version); print(Cython.__version__)"],
        capture_output=True, text=True, check=True).stdout
    return out


def _copy_sources(dst_pkg):
    src = os.path.join(REPO, "xdeps")
    for root, dirs, files in os.walk(src):
        dirs[:] = [d for d in dirs if d != "__pycache__"]
        rel = os.path.relpath(root, src)
        os.makedirs(os.path.join(dst_pkg, rel), exist_ok=True)
        for f in files:
            if f.endswith((".py", ".lark", ".txt")):
                shutil.copy2(os.path.join(root, f), os.path.join(dst_pkg, rel, f))


def _san_libs():
    libs = []
    for name in ("libasan.so", "libubsan.so"):
        p = subprocess.run(["gcc", "-print-file-name=" + name], capture_output=True, text=True).stdout.strip()
        libs.append(os.path.realpath(p))
    return libs


def _compile(overlay, mode):
    env = dict(os.environ)
    env.pop("PYTHONPATH", None)
    if mode == "asan":
        env["CC"] = "gcc"
        env["CFLAGS"] = "-fsanitize=address,undefined -fno-omit-frame-pointer -O1 -g"
        env["LDFLAGS"] = "-fsanitize=address,undefined"
        env["LDSHARED"] = "gcc -shared -fsanitize=address,undefined"
    r = subprocess.run([CYTHONIZE, "-i", "-q", "xdeps/refs.py"], cwd=overlay, env=env,
                       capture_output=True, text=True, timeout=900)
    sos = glob.glob(os.path.join(overlay, "xdeps", "refs*.so"))
    if r.returncode != 0 or not sos:
        raise RuntimeError("cythonize failed (%s): %s\n%s" % (mode, r.stdout[-2000:], r.stderr[-4000:]))
    # remove build by-products, keep only the extension
    for p in glob.glob(os.path.join(overlay, "xdeps", "refs.c")):
        os.remove(p)
    shutil.rmtree(os.path.join(overlay, "build"), ignore_errors=True)
    return sos[0]


def overlay(mode):
    """Return the directory to put first on PYTHONPATH for `mode`."""
    assert mode in ("pure", "compiled", "asan"), mode
    root = os.path.join(scratch_root(), mode)
    pkg = os.path.join(root, "xdeps")
    if os.path.isdir(pkg):
        return root
    _copy_sources(pkg)
    if mode == "pure":
        return root
    with open(os.path.join(pkg, "refs.py"), "rb") as fh:
        key = hashlib.sha256(fh.read() + mode.encode() + _tool_versions().encode()).hexdigest()[:24]
    os.makedirs(CACHE, exist_ok=True)
    with open(os.path.join(CACHE, ".lock"), "w") as lock:
        fcntl.flock(lock, fcntl.LOCK_EX)
        try:
            cdir = os.path.join(CACHE, key)
            hit = glob.glob(os.path.join(cdir, "refs*.so"))
            if hit:
                shutil.copy2(hit[0], pkg)
                os.utime(cdir)
            else:
                so = _compile(root, mode)
                tmp = cdir + ".tmp%d" % os.getpid()
                shutil.rmtree(tmp, ignore_errors=True)
                os.makedirs(tmp)
                shutil.copy2(so, tmp)
                shutil.rmtree(cdir, ignore_errors=True)
                os.rename(tmp, cdir)
                entries = sorted((e for e in os.scandir(CACHE) if e.is_dir()), key=lambda e: e.stat().st_mtime)
                for e in entries[:-MAX_CACHE]:
                    shutil.rmtree(e.path, ignore_errors=True)
        finally:
            fcntl.flock(lock, fcntl.LOCK_UN)
    return root


def worker_env(mode, hashseed=0, extra=None):
    """Environment for a worker process importing the overlay of `mode`."""
    root = overlay(mode)
    env = {k: v for k, v in os.environ.items() if k not in ("PYTHONPATH", "PYTHONHASHSEED")}
    env["PYTHONPATH"] = root + os.pathsep + VERIF
    env["PYTHONHASHSEED"] = str(hashseed)
    env["XDEPS_VERIF"] = "1"
    env["XDEPS_VERIF_MODE"] = mode
    env["XDEPS_VERIF_OVERLAY"] = root
    env["PYTHONDONTWRITEBYTECODE"] = "1"
    env["MPLBACKEND"] = "Agg"
    env["OMP_NUM_THREADS"] = "1"
    env["OPENBLAS_NUM_THREADS"] = "1"
    if mode == "asan":
        logdir = os.path.join(scratch_root(), "sanlogs")
        os.makedirs(logdir, exist_ok=True)
        env["LD_PRELOAD"] = ":".join(_san_libs())
        env["ASAN_OPTIONS"] = "detect_leaks=0:halt_on_error=0:log_path=%s/asan" % logdir
        env["UBSAN_OPTIONS"] = "print_stacktrace=1:halt_on_error=0:log_path=%s/ubsan" % logdir
        env["PYTHONMALLOC"] = "malloc"
        env["XDEPS_VERIF_SANLOGS"] = logdir
    if extra:
        env.update(extra)
    return env


if __name__ == "__main__":
    for m in sys.argv[1:] or ["pure", "compiled"]:
        print(m, overlay(m))
