"""JSON encoding, canonical form and by-value-and-type comparison of numeric values."""
import math

try:
    import numpy as np
except Exception:  # pragma: no cover
    np = None


def enc(v):
    """Encode a value as JSON-able data, loss-free (floats in hex)."""
    if isinstance(v, bool) or v is None:
        return v
    if np is not None and isinstance(v, np.ndarray):
        return {"arr": [enc(x) for x in v.tolist()], "dtype": str(v.dtype), "shape": list(v.shape)}
    if np is not None and isinstance(v, np.generic):
        return {"np": str(v.dtype), "v": enc(v.item())}
    if isinstance(v, int):
        return v
    if isinstance(v, float):
        return {"f": v.hex()}
    if isinstance(v, complex):
        return {"c": [v.real.hex(), v.imag.hex()]}
    if isinstance(v, str):
        return {"s": v}
    if isinstance(v, tuple):
        return {"t": [enc(x) for x in v]}
    if isinstance(v, list):
        return {"l": [enc(x) for x in v]}
    raise TypeError("cannot encode %r" % (v,))


def dec(j):
    if isinstance(j, (bool, int)) or j is None:
        return j
    if isinstance(j, dict):
        if "f" in j:
            return float.fromhex(j["f"])
        if "c" in j:
            return complex(float.fromhex(j["c"][0]), float.fromhex(j["c"][1]))
        if "s" in j:
            return j["s"]
        if "t" in j:
            return tuple(dec(x) for x in j["t"])
        if "l" in j:
            return [dec(x) for x in j["l"]]
        if "np" in j:
            return np.dtype(j["np"]).type(dec(j["v"]))
        if "arr" in j:
            return np.array([dec(x) for x in j["arr"]], dtype=j["dtype"]).reshape(j["shape"])
    raise TypeError("cannot decode %r" % (j,))


def canon(v):
    """Canonical, type-tagged text of a value; -0.0 is written as 0.0 (see DESIGN M1)."""
    if np is not None and isinstance(v, np.ndarray):
        return "arr:%s:%s:[%s]" % (v.dtype, v.shape, ",".join(canon(x) for x in v.ravel().tolist()))
    if np is not None and isinstance(v, np.generic):
        return "np.%s:%s" % (v.dtype, canon(v.item()))
    if isinstance(v, bool):
        return "bool:%s" % v
    if isinstance(v, int):
        return "int:%d" % v
    if isinstance(v, float):
        if v != v:
            return "float:nan"
        if v == 0:
            return "float:0"
        return "float:" + v.hex()
    if isinstance(v, complex):
        return "complex:(%s,%s)" % (canon(v.real), canon(v.imag))
    if isinstance(v, str):
        return "str:%r" % v
    if isinstance(v, tuple):
        return "tuple:(%s)" % ",".join(canon(x) for x in v)
    if isinstance(v, list):
        return "list:[%s]" % ",".join(canon(x) for x in v)
    if v is None:
        return "None"
    if isinstance(v, dict):
        return "dict:{%s}" % ",".join("%r:%s" % (k, canon(x)) for k, x in v.items())
    return "%s:%r" % (type(v).__name__, v)


def same(a, b):
    """Equality by value and type (NaN equals NaN, sign of zero ignored)."""
    return canon(a) == canon(b)


def signed_zero_differs(a, b):
    """True if a and b are equal zeros of different sign (counted, not a violation)."""
    try:
        return (isinstance(a, float) and isinstance(b, float) and a == 0 and b == 0
                and math.copysign(1, a) != math.copysign(1, b))
    except Exception:
        return False


def zero_signs(v):
    """Signs of the float zeros inside a value (for counting raw differences that == does not see)."""
    if isinstance(v, float):
        return "-" if (v == 0 and math.copysign(1, v) < 0) else ""
    if isinstance(v, complex):
        return zero_signs(v.real) + "," + zero_signs(v.imag)
    if isinstance(v, (tuple, list)):
        return "|".join(zero_signs(x) for x in v)
    return ""
