"""Known findings: loading /verif/known_findings.json and mechanism classifiers.

An *open* finding is keyed by mechanism: a predicate over the witness of a would-be
violation.  A *fixed* entry suppresses nothing; its witness is a regression case.
The file is never written at run time.
"""
import json
import os

from . import mgrmon
from . import programs as P

_PATH = os.path.join(os.path.dirname(os.path.dirname(os.path.abspath(__file__))), "known_findings.json")


def load():
    with open(_PATH) as fh:
        return json.load(fh)


def open_ids(prop):
    return {e["id"] for e in load()["findings"] if e["status"] == "open" and prop in e["property"]}


def entry(kfid):
    for e in load()["findings"]:
        if e["id"] == kfid:
            return e
    raise KeyError(kfid)


def is_open(kfid, prop):
    return kfid in open_ids(prop)


def known(kfid, detail=""):
    e = entry(kfid)
    what = e["what"] + ((" [" + detail + "]") if detail else "")
    return {"kf": kfid, "what": what}


# ---- KF1: structural false cycles in the ordering graph --------------------------

def kf1(mgr, run_order, shadow, runner):
    info = mgrmon.writers_and_reads(shadow, runner)
    return mgrmon.classify_kf1(mgr, run_order, info, mgrmon.task_kinds(shadow))


def kf1_premature(mgr, run_order, shadow, runner, assigned_path):
    """KF1 surfacing as an exception: the task that raised (the last run event) was evaluated BEFORE a
    triggered task that truly produces one of its inputs (so it saw a stale input), and every such
    would-be inversion lies inside one structural cycle.  The run stopped at the exception, so the
    producers that had not run yet are appended to the observed order for the inversion analysis."""
    from checks import c02
    import xdeps.refs as R
    if not run_order:
        return False, "no task ran", []
    info = mgrmon.writers_and_reads(shadow, runner)
    raising = run_order[-1]
    if raising not in info:
        return False, "raising task unknown to the shadow", []
    try:
        triggered = c02.oracle_trigger(mgr, runner.mkref(assigned_path), R)
    except Exception as exc:
        return False, "trigger set not computable: %s" % exc, []
    ran = set(run_order)
    pending = [p for p in info if p in triggered and p not in ran
               and any(mgrmon._related(w, r) for w in info[p][0] for r in info[raising][1])]
    if not pending:
        return False, "no pending producer of the raising task", []
    return mgrmon.classify_kf1(mgr, list(run_order) + pending, info, mgrmon.task_kinds(shadow))


# ---- KF5: computed key directly on a top-level container --------------------------

def _toplevel_computed_reads(term):
    """Container labels L such that the term reads L[<computed key>] directly."""
    out = set()
    for p in P.term_paths(term):
        if len(p) >= 2 and p[1][0] == "k":
            out.add(p[0])
    return out


def kf5(shadow, op, mismatched_texts):
    """The stale location's definition, or one upstream of it, reads label[computed key]
    and the assigned location is a direct child of that same top-level container."""
    if op[0] not in ("set", "iop") or len(op[1]) != 2:
        return False
    label = op[1][0]
    by_text = {shadow.ck_text(ck): ck for ck in shadow.locations()}
    for text in mismatched_texts:
        ck = by_text.get(text)
        if ck is None:
            return False
        hit = False
        for up in shadow.true_reads_closure(ck):
            if up in shadow.defs and label in _toplevel_computed_reads(shadow.defs[up]):
                hit = True
                break
        if not hit:
            return False
    return True


def kf5_exception(shadow, op, run_order):
    """KF5 surfacing as an exception: the task that raised (the last run event) has, strictly upstream of it, a
    definition that reads label[computed key] on the top-level container a direct child of which was assigned, and
    that definition was NOT re-run before the raising task -- the manager does not know it depends on the assigned
    location, so the raising task was evaluated on its stale value."""
    if op[0] not in ("set", "iop") or len(op[1]) != 2 or not run_order:
        return False
    label = op[1][0]
    by_text = {shadow.ck_text(ck): ck for ck in shadow.locations()}
    ck = by_text.get(str(run_order[-1]))
    if ck is None:
        return False
    ran_before = {str(x) for x in run_order[:-1]}
    for up in shadow.true_reads_closure(ck):
        if up != ck and up in shadow.defs and label in _toplevel_computed_reads(shadow.defs[up]) \
                and shadow.ck_text(up) not in ran_before:
            return True
    return False


# ---- KF6: LinearKnob does not declare the containers enclosing its targets ----------

def kf6(shadow, run_order, mismatched_texts):
    """A knob ran in this step, and every stale location has, in its true upstream closure (itself
    included), a definition that reads -- as a whole or through a computed key -- a container that
    strictly encloses a target of a knob that ran."""
    ran = [str(x) for x in run_order]
    targets = [t for name, kb in shadow.knobs.items() if name in ran for t in kb["targets"]]
    if not targets:
        return False
    by_text = {shadow.ck_text(ck): ck for ck in shadow.locations()}

    def encloses_target(r):
        return any(len(r) < len(t) and tuple(t[:len(r)]) == tuple(r) for t in targets)

    for text in mismatched_texts:
        ck = by_text.get(text)
        if ck is None:
            return False
        if not any(encloses_target(r) for up in shadow.true_reads_closure(ck) for r in shadow.reads(up)):
            return False
    return True
