"""Known findings: loading /verif/known_findings.json and mechanism classifiers.

An *open* finding is keyed by mechanism: a predicate over the witness of a would-be
violation.  A *fixed* entry suppresses nothing; its witness is a regression case.
The file is never written at run time.
"""
import json
import os

from . import mgrmon
from . import programs as P

_PATH = os.path.join(os.path.dirname(os.path.dirname(os.path.abspath(__file__))), "known_findings.json")


def load():
    with open(_PATH) as fh:
        return json.load(fh)


def open_ids(prop):
    return {e["id"] for e in load()["findings"] if e["status"] == "open" and prop in e["property"]}


def entry(kfid):
    for e in load()["findings"]:
        if e["id"] == kfid:
            return e
    raise KeyError(kfid)


def is_open(kfid, prop):
    return kfid in open_ids(prop)


def known(kfid, detail=""):
    e = entry(kfid)
    what = e["what"] + ((" [" + detail + "]") if detail else "")
    return {"kf": kfid, "what": what}


# ---- KF1: structural false cycles in the ordering graph --------------------------

def kf1(mgr, run_order, shadow, runner):
    info = mgrmon.writers_and_reads(shadow, runner)
    return mgrmon.classify_kf1(mgr, run_order, info, mgrmon.task_kinds(shadow))


# ---- KF5: computed key directly on a top-level container --------------------------

def _toplevel_computed_reads(term):
    """Container labels L such that the term reads L[<computed key>] directly."""
    out = set()
    for p in P.term_paths(term):
        if len(p) >= 2 and p[1][0] == "k":
            out.add(p[0])
    return out


def kf5(shadow, op, mismatched_texts):
    """The stale location's definition, or one upstream of it, reads label[computed key]
    and the assigned location is a direct child of that same top-level container."""
    if op[0] not in ("set", "iop") or len(op[1]) != 2:
        return False
    label = op[1][0]
    by_text = {shadow.ck_text(ck): ck for ck in shadow.locations()}
    for text in mismatched_texts:
        ck = by_text.get(text)
        if ck is None:
            return False
        hit = False
        for up in shadow.true_reads_closure(ck):
            if up in shadow.defs and label in _toplevel_computed_reads(shadow.defs[up]):
                hit = True
                break
        if not hit:
            return False
    return True
