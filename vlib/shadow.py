"""M1 — shadow pull model of a Manager-driven world (DESIGN 2.4).

The shadow keeps the *definitions* (terms) and the *last assigned values* and evaluates a
location by recursive (memoised) evaluation of its definition on shadow values.  It never
looks at the manager or its indices.  The only library-specific rule is the documented
one: ZeroDivisionError in a deferred / // % node yields NaN.
"""
import copy
import math

from . import programs as P
from .values import canon, dec, enc


class Discard(Exception):
    """The operation is outside the property's premise (Python itself would raise, or the
    computation is unreasonably large); the generator drops it."""


class ObjS(dict):
    """Shadow of an attribute container."""


def _node_to_store(node):
    if isinstance(node, dict):
        if "dict" in node:
            return {dec(k): _node_to_store(v) for k, v in node["dict"]}
        if "list" in node:
            return [_node_to_store(v) for v in node["list"]]
        if "obj" in node:
            return ObjS((k, _node_to_store(v)) for k, v in node["obj"])
        if "fn" in node:
            return FN
    return dec(node)


class _Fn:
    """Mirror of containers.FnBox (pure functions)."""

    @staticmethod
    def lin(x, y=1, *, k=2):
        _guard_mul(x, k)
        return x * k + y

    @staticmethod
    def sq(x):
        _guard_mul(x, x)
        return x * x

    @staticmethod
    def pick(c, a, b=0):
        return a if c else b

    @staticmethod
    def sub3(x, y=0, z=0):
        return x - y - z

    @staticmethod
    def mean(*args, w=1):
        _guard_mul(sum(args), w)
        return sum(args) * w / len(args)

    @staticmethod
    def kws(*args, **kw):
        acc = 0.0
        for i, v in enumerate(kw.values()):
            _guard_mul(v, i + 1)
            acc = acc * 0.5 + v * (i + 1)
        return acc + sum(args)

    @staticmethod
    def tot(c):
        if isinstance(c, dict):                       # ObjS is a dict too
            return sum([_Fn.tot(v) for v in c.values()])
        if isinstance(c, (list, tuple)):
            return sum([_Fn.tot(v) for v in c])
        return c

    def __deepcopy__(self, memo):
        return self


FN = _Fn()
MAX_BITS = 20000


def _guard_int(v):
    if isinstance(v, int) and not isinstance(v, bool) and v.bit_length() > MAX_BITS:
        raise Discard("integer too large")
    return v


def _guard_mul(a, b):
    if isinstance(a, int) and isinstance(b, int) and a.bit_length() + b.bit_length() > MAX_BITS:
        raise Discard("int mul too large")
    for x, y in ((a, b), (b, a)):
        if isinstance(x, (tuple, list, str)) and isinstance(y, int) and y > 64:
            raise Discard("sequence repetition too large")


def guarded_bin(op, a, b):
    if op == "pow":
        if isinstance(a, int) and isinstance(b, int):
            if b > 0 and a.bit_length() * b > MAX_BITS:
                raise Discard("int pow too large")
        elif isinstance(b, int) and abs(b) > 4096:
            raise Discard("exponent too large")
    elif op == "lshift":
        if isinstance(b, int) and b > 512:
            raise Discard("shift too large")
    elif op == "mul":
        _guard_mul(a, b)
    if op in P.DEFERRED_EQ:
        return P.DEFERRED_EQ[op][1](a, b)
    return _guard_int(P.BIN[op](a, b))


class Shadow:
    def __init__(self, world):
        self.store = {label: _node_to_store(node) for label, node in world["labels"].items()}
        self.defs = {}      # ckey -> term
        self.ftasks = {}    # name -> dict(deps, target(ckey), weights, const)
        self.knobs = {}     # name -> dict(source(path), weights, targets(ckeys), prev)
        self.order = []     # knob names in registration order
        self.zero_divisions = 0
        self.stale = False  # set once a definition was registered without being evaluated (load)

    def clone(self):
        other = Shadow.__new__(Shadow)
        other.store = copy.deepcopy(self.store)
        other.defs = dict(self.defs)               # terms are never mutated
        other.ftasks = {k: dict(v) for k, v in self.ftasks.items()}
        other.knobs = {k: dict(v) for k, v in self.knobs.items()}
        other.order = list(self.order)
        other.stale = self.stale
        other.zero_divisions = self.zero_divisions
        return other

    # -- locations ------------------------------------------------------------
    def ckey(self, path, memo=None):
        """Concrete key of a path: computed keys are resolved on current shadow values."""
        out = [path[0]]
        for st in path[1:]:
            if st[0] == "i":
                out.append(("i", dec(st[1])))
            elif st[0] == "a":
                out.append(("a", st[1]))
            else:
                out.append(("i", self.expected_path(st[1], memo)))
        return tuple(out)

    def _nav(self, ck):
        x = self.store[ck[0]]
        for kind, key in ck[1:]:
            x = x[key]   # KeyError / IndexError / TypeError propagate: Python would raise too
        return x

    def _parent_set(self, ck, value):
        x = self.store[ck[0]]
        for kind, key in ck[1:-1]:
            x = x[key]
        x[ck[-1][1]] = value

    def locations(self):
        """All leaf locations (ckeys) currently present in the store."""
        out = []

        def walk(x, ck):
            if isinstance(x, ObjS):
                for k, v in x.items():
                    walk(v, ck + (("a", k),))
            elif isinstance(x, dict):
                for k, v in x.items():
                    walk(v, ck + (("i", k),))
            elif isinstance(x, list):
                for i, v in enumerate(x):
                    walk(v, ck + (("i", i),))
            elif isinstance(x, _Fn):
                pass
            else:
                out.append(ck)
        for label, node in self.store.items():
            walk(node, (label,))
        return out

    @staticmethod
    def ck_text(ck):
        s = ck[0]
        for kind, key in ck[1:]:
            s += "[%r]" % (key,) if kind == "i" else "." + key
        return s

    # -- evaluation -----------------------------------------------------------
    def expected(self, ck, memo=None, _stack=None):
        if memo is None:
            memo = {}
        if ck in memo:
            return memo[ck]
        if _stack is None:
            _stack = set()
        if ck in _stack:
            raise Discard("cyclic definition in shadow")
        _stack.add(ck)
        try:
            if ck in self.defs:
                v = self.eval(self.defs[ck], memo, _stack)
            else:
                ft = self._ftask_of(ck)
                if ft is not None:
                    acc = ft["const"]
                    for w, d in zip(ft["weights"], ft["deps"]):
                        acc = acc + w * self.expected_path(d, memo, _stack)
                    v = acc
                else:
                    v = self._expected_node(ck, self._nav(ck), memo, _stack)
        finally:
            _stack.discard(ck)
        memo[ck] = v
        return v

    def _ftask_of(self, ck):
        for ft in self.ftasks.values():
            if ft["target"] == ck:
                return ft
        return None

    def _expected_node(self, ck, x, memo, stack):
        """Expected *contents* when a whole container is read as a value."""
        if isinstance(x, ObjS):
            return ObjS((k, self.expected(ck + (("a", k),), memo, stack)) for k in x)
        if isinstance(x, dict):
            return {k: self.expected(ck + (("i", k),), memo, stack) for k in x}
        if isinstance(x, list):
            return [self.expected(ck + (("i", i),), memo, stack) for i in range(len(x))]
        return x

    def expected_path(self, path, memo=None, _stack=None):
        if memo is None:
            memo = {}
        return self.expected(self.ckey(path, memo), memo, _stack)

    def eval(self, term, memo=None, _stack=None):
        k = term[0]
        if k == "ref":
            return self.expected_path(term[1], memo, _stack)
        if k in ("lit", "litexpr"):
            return dec(term[1])
        if k == "bin":
            a = self.eval(term[2], memo, _stack)
            b = self.eval(term[3], memo, _stack)
            try:
                return guarded_bin(term[1], a, b)
            except ZeroDivisionError:
                if term[1] in P.ZERO_DIV_NAN and P.is_deferred(term):
                    self.zero_divisions += 1
                    return float("nan")
                raise
        if k == "un":
            return P.UN[term[1]](self.eval(term[2], memo, _stack))
        if k == "bi":
            args = [self.eval(t, memo, _stack) for t in term[2:]]
            return _guard_int(P.BI[term[1]](*args))
        if k == "call":
            args = [self.eval(t, memo, _stack) for t in term[2]]
            kwargs = {kw: self.eval(t, memo, _stack) for kw, t in term[3]}
            return getattr(FN, term[1])(*args, **kwargs)
        raise ValueError(term)

    def guard_literals(self, term):
        """Building a term evaluates its literal-only sub-terms eagerly (plain Python arithmetic, before any
        ref is involved).  Evaluate each of them here under the size guards -- independently of errors
        elsewhere in the term -- and raise Discard if one is unreasonably large."""
        k = term[0]
        if k in ("ref", "lit", "litexpr"):
            return
        subs = term[2:] if k in ("bin", "un", "bi") else list(term[2]) + [t for _, t in term[3]]
        for t in subs:
            if isinstance(t, list):
                self.guard_literals(t)
        if not P.is_deferred(term):
            try:
                self.eval(term)
            except Discard:
                raise
            except Exception:
                pass

    def all_expected(self):
        """{location text: expected value} for every leaf location; raises what Python raises."""
        memo = {}
        return {self.ck_text(ck): self.expected(ck, memo) for ck in self.locations()}

    # -- operations -----------------------------------------------------------
    def apply(self, op):
        k = op[0]
        if k == "set":
            ck = self.ckey(op[1])
            if op[2][0] == "t" and P.is_deferred(op[2][1]):
                self.defs[ck] = op[2][1]
                self.expected(ck)   # evaluate once: Python errors surface here
            else:
                v = dec(op[2][1]) if op[2][0] == "v" else self.eval(op[2][1])
                self.defs.pop(ck, None)
                self._parent_set(ck, v)
            self._knobs_update()
        elif k == "iop":
            ck = self.ckey(op[1])
            operand_t = ["lit", op[3][1]] if op[3][0] == "v" else op[3][1]
            if ck in self.defs:
                self.defs[ck] = ["bin", op[2], self.defs[ck], operand_t]
                self.expected(ck)
            elif P.is_deferred(operand_t):
                cur = self._nav(ck)
                self.defs[ck] = ["bin", op[2], ["lit", enc(cur)], operand_t]
                self.expected(ck)
            else:
                cur = self._nav(ck)
                self._parent_set(ck, guarded_bin(op[2], cur, self.eval(operand_t)))
            self._knobs_update()
        elif k == "unreg":
            ck = self.ckey(op[1])
            v = self.expected(ck)
            del self.defs[ck]
            self._parent_set(ck, v)
        elif k == "replace":
            ck = self.ckey(op[1])
            self._parent_set(ck, _node_to_store(op[2]))
            self._knobs_update()
        elif k == "ftask":
            name, deps, target, weights, const = op[1:6]
            self.ftasks[name] = {"deps": deps, "target": self.ckey(target),
                                 "weights": [dec(w) for w in weights], "const": dec(const)}
            self.expected(self.ckey(target))
            self._knobs_update()
        elif k == "knob":
            name, source, weights, targets = op[1:5]
            prev = self.expected_path(source)
            if not isinstance(prev, float) or not math.isfinite(prev):
                # a spurious re-run (sibling / owner trigger) computes inf - inf or changes int -> float
                raise Discard("knob source not a finite float")
            if any(not isinstance(self._nav(self.ckey(t)), float) for t in targets):
                raise Discard("knob target not a float")
            self.knobs[name] = {"source": source, "weights": [dec(w) for w in weights],
                                "targets": [self.ckey(t) for t in targets],
                                "prev": prev}
            self.order.append(name)
        elif k == "unreg_task":
            name = op[1]
            if name in self.ftasks:
                ft = self.ftasks[name]
                v = self.expected(ft["target"])
                del self.ftasks[name]
                self._parent_set(ft["target"], v)
            else:
                del self.knobs[name]
                self.order.remove(name)
        elif k == "load":
            # load registers definitions WITHOUT evaluating them: values stay as they are until
            # something upstream is assigned; from here on shadow values are not authoritative
            for p, t in op[1]:
                ck = self.ckey(p)
                self.eval(t)        # building the expression evaluates its literal-only parts
                if op[2] or ck not in self.defs:
                    self.defs[ck] = t
                    self.stale = True
        elif k in ("refresh", "cleanup", "verify", "freeze", "unfreeze", "query"):
            pass
        else:
            raise ValueError(op)

    def _knobs_update(self):
        """Linear knobs are incremental: replay their update, producers first."""
        todo = list(self.order)
        done = []
        guard = 0
        while todo:
            guard += 1
            if guard > 1000:
                raise Discard("knob ordering did not converge")
            name = todo.pop(0)
            kb = self.knobs[name]
            # a knob whose source depends on another pending knob's targets must wait
            src_deps = self.true_reads_closure(self.ckey(kb["source"]))
            if any(t in src_deps for other in todo for t in self.knobs[other]["targets"]):
                todo.append(name)
                continue
            value = self.expected_path(kb["source"])
            if not isinstance(value, float) or not math.isfinite(value):
                raise Discard("knob source not a finite float")
            delta = value - kb["prev"]
            for w, t in zip(kb["weights"], kb["targets"]):
                if not isinstance(self._nav(t), float):
                    raise Discard("knob target not a float")
                self._parent_set(t, self._nav(t) + w * delta)
            kb["prev"] = value
            done.append(name)

    # -- true data flow -------------------------------------------------------
    def reads(self, ck):
        """Locations (ckeys) directly read by the definition of ck (leaf reads, current keys)."""
        out = set()
        if ck in self.defs:
            for p in P.term_paths(self.defs[ck]):
                out.add(self.ckey(p))
                for j, st in enumerate(p):
                    if j and st[0] == "k":      # a computed key may select any member
                        out.add(self.ckey(p[:j]))
        else:
            ft = self._ftask_of(ck)
            if ft is not None:
                for p in ft["deps"]:
                    out.add(self.ckey(p))
            for kb in self.knobs.values():
                if ck in kb["targets"]:
                    out.add(self.ckey(kb["source"]))
        return out

    def true_reads_closure(self, ck):
        """All locations ck transitively depends on (prefix-aware), including ck itself."""
        seen = set()
        todo = [ck]
        defined = list(self.defs) + [ft["target"] for ft in self.ftasks.values()] + \
            [t for kb in self.knobs.values() for t in kb["targets"]]
        while todo:
            c = todo.pop()
            if c in seen:
                continue
            seen.add(c)
            for r in self.reads(c):
                if r not in seen:
                    todo.append(r)
                # reading a container reads every defined member below it
                for d in defined:
                    if len(d) > len(r) and d[:len(r)] == r and d not in seen:
                        todo.append(d)
        return seen

    def depends_on(self, ck, other):
        """Would defining `other` in terms of ck create a true cycle?  (ck depends on other)"""
        clo = self.true_reads_closure(ck)
        for c in clo:
            n = min(len(c), len(other))
            if c[:n] == other[:n]:
                return True
        return False

    def true_cycle(self):
        """A defined location whose definition (conservatively: a computed key reads the whole
        container) transitively reads itself: outside every property's acyclic premise."""
        defined = list(self.defs) + [ft["target"] for ft in self.ftasks.values()] + \
            [t for kb in self.knobs.values() for t in kb["targets"]]
        for d in defined:
            for r in self.reads(d):
                if self.depends_on(r, d):
                    return d
        return None

    def contents_canon(self):
        return {k: canon(v) for k, v in self.all_expected().items()}
