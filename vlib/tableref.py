"""Reference model for xdeps.Table row addressing and row selection (C07, C08).

Everything here works on plain Python lists taken from the CURRENT raw columns; it never
touches the table's caches."""
import re


def split(s, sep_count="::", sep_prev="<<", sep_next=">>"):
    """'name::count<<k' / 'name::count>>k' -> (name, count or None, offset)."""
    off = 0
    if sep_prev in s:
        s, o = s.split(sep_prev, 1)
        off -= int(o)
    elif sep_next in s:
        s, o = s.split(sep_next, 1)
        off += int(o)
    cnt = None
    if sep_count in s:
        s, c = s.split(sep_count, 1)
        cnt = int(c)
    return s, cnt, off


def resolve(names, name, count=None, offset=0):
    """Position of the count-th occurrence of name (negative from the last) + offset; KeyError if none."""
    occ = [i for i, n in enumerate(names) if n == name]
    if count is None:
        count = 0
    if count < 0:
        count += len(occ)
    if not (0 <= count < len(occ)):
        raise KeyError(name)
    return occ[count] + offset


def resolve_row(names, row):
    """Row given as string or tuple (name, count[, offset])."""
    if isinstance(row, str):
        return resolve(names, *split(row))
    name, count, *off = row
    return resolve(names, name, count, off[0] if off else 0)


def unique_labels(names):
    """Labels as cols.get_index_unique() documents them: name if unique else name::k."""
    total = {}
    for n in names:
        total[n] = total.get(n, 0) + 1
    seen = {}
    out = []
    for n in names:
        k = seen.get(n, 0)
        seen[n] = k + 1
        out.append(n if total[n] == 1 else "%s::%d" % (n, k))
    return out


def select_regex(names, sel, flags=re.IGNORECASE):
    pat, cnt, off = split(sel)
    rx = re.compile(pat, flags)
    if cnt is None:
        idx = [i for i, n in enumerate(names) if rx.fullmatch(n)]
    else:
        idx = []
        for nm in dict.fromkeys(n for n in names if rx.fullmatch(n)):
            try:
                idx.append(resolve(names, nm, cnt, 0))
            except KeyError:
                pass
        idx.sort()          # table order
    return [i + off for i in idx]


def select(names, cols, sel):
    """Positions denoted by one selector, in the order the statement prescribes."""
    n = len(names)
    if sel is None:
        return list(range(n))
    if isinstance(sel, str):
        return select_regex(names, sel)
    if isinstance(sel, slice):
        a, b, c = sel.start, sel.stop, sel.step
        if isinstance(a, str) or isinstance(b, str):
            ia = None if a is None else resolve_row(names, a)
            ib = None if b is None else resolve_row(names, b) + 1
            return list(range(n))[slice(ia, ib)]
        if isinstance(c, str):
            col = cols[c]
            return [i for i in range(n) if (a is None or col[i] >= a) and (b is None or col[i] <= b)]
        return list(range(n))[sel]
    if isinstance(sel, bool):
        raise TypeError("bool selector")
    if isinstance(sel, int):
        if not -n <= sel < n:
            raise IndexError(sel)
        return [sel % n]
    if isinstance(sel, (list, tuple)) or hasattr(sel, "dtype"):
        sel = list(sel)
        if len(sel) and all(isinstance(v, bool) or type(v).__name__ in ("bool_", "bool") for v in sel):
            if len(sel) != n:
                raise IndexError("mask length")
            return [i for i, v in enumerate(sel) if v]
        out = []
        for s in sel:
            if isinstance(s, str):
                out.append(resolve_row(names, s))
            else:
                s = int(s)
                if not -n <= s < n:
                    raise IndexError(s)
                out.append(s % n)
        return out
    raise TypeError(sel)


def kf4_literal_fast_path(names, sel, flags=re.IGNORECASE):
    """KF4 mechanism: the selector has a count, its text before '::' is literally an index name that
    has that occurrence, and as a regular expression it full-matches another DISTINCT name."""
    if not isinstance(sel, str):
        return False
    pat, cnt, off = split(sel)
    if cnt is None:
        return False
    try:
        resolve(names, pat, cnt, 0)
    except KeyError:
        return False
    try:
        rx = re.compile(pat, flags)
    except re.error:
        return False
    return any(n != pat and rx.fullmatch(n) for n in names)
