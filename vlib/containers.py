"""Tracing and fault-injecting containers (monitor M2).

Every write that reaches a container through item or attribute assignment is appended to
the module-level event log EVENTS as ("w", path, key) *before* it is performed; with the
fault armed (ARM["write"] == k) the k-th write from now raises InjectedFault instead of
being performed.  Function containers log ("c", name) per call and can be armed likewise.
All classes are module-level so that containers pickle (C12).
"""

EVENTS = []
ARM = {"write": None, "call": None, "persistent": False, "exc": None}
STATS = {"writes": 0, "calls": 0}


class InjectedFault(Exception):
    pass


def _injected(base):
    return type("Injected" + base.__name__, (base,), {"__module__": __name__})


# the same fault as an instance of common built-in exception classes (a failure of user code can be of any class;
# StopIteration in particular is swallowed by iterator-driven loops)
INJECTED_CLASSES = [InjectedFault] + [_injected(b) for b in (StopIteration, KeyError, AttributeError, OverflowError, TypeError,
                                                              ValueError, IndexError, RuntimeError, LookupError, ArithmeticError,
                                                              ZeroDivisionError)]
for _c in INJECTED_CLASSES[1:]:
    globals()[_c.__name__] = _c


def is_injected(exc):
    return isinstance(exc, tuple(INJECTED_CLASSES))


def reset():
    del EVENTS[:]
    ARM["write"] = None
    ARM["call"] = None
    ARM["persistent"] = False
    ARM["exc"] = None
    ARM["bare"] = False


def _tick(kind, what):
    k = ARM[kind]
    if k is not None:
        if k <= 0:
            if not ARM["persistent"]:
                ARM[kind] = None
            EVENTS.append(("fault", kind, what))
            if ARM.get("bare"):
                raise (ARM.get("exc") or InjectedFault)()          # an exception built without arguments (exc.args == ())
            raise (ARM.get("exc") or InjectedFault)("%s fault at %r" % (kind, what))
        ARM[kind] = k - 1


class LogDict(dict):
    _vpath = "?"

    def __setitem__(self, key, value):
        _tick("write", (self._vpath, key))
        STATS["writes"] += 1
        EVENTS.append(("w", self._vpath, key, value, "i"))
        dict.__setitem__(self, key, value)

    def __reduce__(self):
        return (_mk_dict, (self._vpath, dict(self)))


def _mk_dict(vpath, data):
    d = LogDict(data)
    d._vpath = vpath
    return d


class LogList(list):
    _vpath = "?"

    def __setitem__(self, key, value):
        _tick("write", (self._vpath, key))
        STATS["writes"] += 1
        EVENTS.append(("w", self._vpath, key, value, "i"))
        list.__setitem__(self, key, value)

    def __reduce__(self):
        return (_mk_list, (self._vpath, list(self)))


def _mk_list(vpath, data):
    d = LogList(data)
    d._vpath = vpath
    return d


class LogObj(object):
    def __init__(self, vpath="?", **kw):
        object.__setattr__(self, "_vpath", vpath)
        for k, v in kw.items():
            object.__setattr__(self, k, v)

    def __setattr__(self, key, value):
        _tick("write", (self._vpath, key))
        STATS["writes"] += 1
        EVENTS.append(("w", self._vpath, key, value, "a"))
        object.__setattr__(self, key, value)

    def _items(self):
        return {k: v for k, v in self.__dict__.items() if k != "_vpath"}


def _tot(c):
    """Sum over a whole (possibly nested) dict, list or attribute container, in storage order."""
    if isinstance(c, LogObj):
        c = c._items()
    if isinstance(c, dict):
        return sum([_tot(v) for v in c.values()])
    if isinstance(c, (list, tuple)):
        return sum([_tot(v) for v in c])
    return c


class FnBox(object):
    """Deterministic functions reachable through a container ref (f.lin(x, y, k=..))."""

    def __init__(self, vpath="f"):
        self._vpath = vpath

    def _log(self, name):
        _tick("call", name)
        STATS["calls"] += 1
        EVENTS.append(("c", name))

    def lin(self, x, y=1, *, k=2):
        self._log("lin")
        return x * k + y

    def sq(self, x):
        self._log("sq")
        return x * x

    def pick(self, c, a, b=0):
        self._log("pick")
        return a if c else b

    def sub3(self, x, y=0, z=0):
        self._log("sub3")
        return x - y - z

    def mean(self, *args, w=1):
        self._log("mean")
        return sum(args) * w / len(args)

    def kws(self, *args, **kw):
        """Sensitive to the ORDER of its keyword arguments (as any **kwargs callee may be)."""
        self._log("kws")
        acc = 0.0
        for i, v in enumerate(kw.values()):
            acc = acc * 0.5 + v * (i + 1)
        return acc + sum(args)

    def tot(self, c):
        """Reads a whole container (dict or list) passed as one argument."""
        self._log("tot")
        return _tot(c)
