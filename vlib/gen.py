"""Generators of worlds, terms and assignment histories for the Manager checks."""
from . import programs as P
from .shadow import Discard, Shadow
from .values import enc

F = enc  # shorthand


def I(key):
    return ["i", enc(key)]


def A(name):
    return ["a", name]


FLOATS = [0.5, -1.5, 2.0, 0.0, 1e-3, 3.25, -0.75, 10.0, 1.0]
INTS = [-3, -1, 0, 1, 2, 3, 5, 7]


HOSTILE_NAMES = {"x": "x']['y", "y": "ref_a", "z": "r", "u": 'x["r"]', "w": "a.b", "g": "f.sq(1)",
                 "t1": "r", "t2": "ref_a", "t3": "it's", "t4": "r['t0']", "v3": "var", "v4": "a"}


# whole-container reads: group -> number of member locations, and the container paths of the group
WHOLE_SIZE = {"n": 3, "l": 3, "o": 3, "d": 3, "asub": 2}
WHOLE_PATHS = {"n": [["r", I("n")]], "l": [["r", I("l")]], "o": [["r", I("o")]],
               "d": [["r", I("d")], ["r", I("d"), I("m")]], "asub": [["a", A("sub")]]}


# a second family: backslashes (followed by a letter that forms an escape, or at the end of the key) and control characters
HOSTILE_NAMES_B = {"x": "\\theta", "y": "c:\\new", "z": "tail\\", "u": "line\nbreak", "w": "tab\there", "g": "nul\x00x",
                   "t1": "\\", "t2": "it's\\n", "t3": "\r", "t4": "a\\'b", "v3": "\\x41", "v4": "q\\"}


# a third family: integer keys whose refs collide in hash although they are different locations of one container
# (hash(-1) == hash(-2); hash(2**61 - 1) == hash(0))
TWIN_KEYS = {"x": -1, "y": -2, "u": -1, "w": -2, "v3": -1, "v4": -2, "t1": 2 ** 61 - 1, "t2": 0, "t3": -3, "t4": -4}


def make_world(rng, layered=True, n_flat=None, hostile=False, twins=False):
    """Returns (world spec, locs) where locs = [dict(path, group, kind, layer)].
    hostile=True renames keys to text containing quotes, brackets, dots and container labels, or (second family)
    backslashes and control characters."""
    world, locs = _make_world(rng, layered, n_flat)
    if hostile or twins:
        if twins:
            HOSTILE_NAMES = TWIN_KEYS
        else:
            HOSTILE_NAMES = globals()["HOSTILE_NAMES"] if rng.random() < 0.6 else HOSTILE_NAMES_B
        def ren(x):
            if isinstance(x, dict):
                if set(x) == {"s"} and x["s"] in HOSTILE_NAMES:
                    return enc(HOSTILE_NAMES[x["s"]])
                return {k: ren(v) for k, v in x.items()}
            if isinstance(x, list):
                return [ren(v) for v in x]
            return x
        world = ren(world)
        for l in locs:
            l["path"] = ren(l["path"])
            if l["kind"] == "key_s":
                l["choices"] = [HOSTILE_NAMES.get(k, k) for k in "xyz"]
    return world, locs


def _make_world(rng, layered=True, n_flat=None):
    n_v = rng.randrange(3, 6)
    n_i = rng.randrange(2, 4)
    n_t = n_flat if n_flat is not None else rng.randrange(3, 8)
    rd = []
    locs = []

    def leaf(path, group, kind, value):
        locs.append({"path": path, "group": group, "kind": kind})
        return enc(value)

    for j in range(n_v):
        rd.append([F("v%d" % j), leaf(["r", I("v%d" % j)], "leaf", "float", rng.choice(FLOATS))])
    for j in range(n_i):
        rd.append([F("i%d" % j), leaf(["r", I("i%d" % j)], "leaf", "int", rng.choice(INTS))])
    rd.append([F("b0"), leaf(["r", I("b0")], "leaf", "bool", rng.random() < 0.5)])
    rd.append([F("ks"), leaf(["r", I("ks")], "leaf", "key_s", rng.choice("xyz"))])
    rd.append([F("ki"), leaf(["r", I("ki")], "leaf", "key_i", rng.randrange(3))])
    rd.append([F("kt"), leaf(["r", I("kt")], "leaf", "key_t", rng.choice(["v0", "v1", "v2"]))])
    for j in range(n_t):
        rd.append([F("t%d" % j), leaf(["r", I("t%d" % j)], "t%d" % j, "float", rng.choice(FLOATS))])
    rd.append([F("n"), {"dict": [[F(k), leaf(["r", I("n"), I(k)], "n", "float", rng.choice(FLOATS))] for k in "xyz"]}])
    rd.append([F("l"), {"list": [leaf(["r", I("l"), I(j)], "l", "float", rng.choice(FLOATS)) for j in range(3)]}])
    rd.append([F("o"), {"obj": [[k, leaf(["r", I("o"), A(k)], "o", "float", rng.choice(FLOATS))] for k in "pqs"]}])
    rd.append([F("d"), {"dict": [
        [F("m"), {"dict": [[F(k), leaf(["r", I("d"), I("m"), I(k)], "d", "float", rng.choice(FLOATS))] for k in "uw"]}],
        [F("g"), leaf(["r", I("d"), I("g")], "d", "float", rng.choice(FLOATS))]]}])
    ad = []
    for j in range(2):
        ad.append(["g%d" % j, leaf(["a", A("g%d" % j)], "ag%d" % j, "float", rng.choice(FLOATS))])
    ad.append(["sub", {"obj": [[k, leaf(["a", A("sub"), A(k)], "asub", "float", rng.choice(FLOATS))] for k in ("h0", "h1")]}])
    world = {"labels": {"r": {"dict": rd}, "a": {"obj": ad}, "f": {"fn": 1}}}
    groups = sorted({l["group"] for l in locs if l["group"] != "leaf"})
    rng.shuffle(groups)
    layer = {"leaf": 0}
    for n, g in enumerate(groups):
        layer[g] = n + 1
    for l in locs:
        l["layer"] = layer[l["group"]]
    return world, locs


class TermGen:
    ALL = frozenset(["complex", "divmod", "keys", "topkeys", "builtins", "eqne", "mathfn", "litexpr"])

    def __init__(self, rng, profile="full"):
        self.rng = rng
        if profile == "full":
            profile = self.ALL
        elif profile == "safe":          # everything except the KF5 trigger
            profile = self.ALL - {"topkeys"}
        elif profile == "plain":         # arithmetic, comparisons, calls, nested computed keys
            profile = frozenset(["keys"])
        self.profile = frozenset(profile)
        self.floats = FLOATS
        self.ints = INTS
        self.whole_groups = ("n", "l")      # containers that may be read as a whole (f.tot(container))

    def lit(self, kind):
        r = self.rng
        if "litexpr" in self.profile and r.random() < 0.12:
            return ["litexpr", enc(r.choice(self.ints if kind == "int" else self.floats))]
        if kind == "int":
            return ["lit", enc(r.choice(self.ints))]
        x = r.random()
        if x < 0.55:
            return ["lit", enc(r.choice(self.floats))]
        if x < 0.9:
            return ["lit", enc(r.choice(self.ints))]
        if x < 0.95:
            return ["lit", enc(True)]
        return ["lit", enc(complex(1.0, -2.0))] if "complex" in self.profile else ["lit", enc(2.5)]

    def ref(self, readable, kind):
        r = self.rng
        pool = [l for l in readable if (l["kind"] in ("int", "bool")) == (kind == "int")] if kind == "int" else \
            [l for l in readable if l["kind"] not in ("key_s", "key_i", "key_t")]
        if not pool:
            return None
        l = r.choice(pool)
        path = l["path"]
        # computed keys into n / l when the whole container and the key holder are readable
        names = {tuple(map(str, x["path"])) for x in readable}
        has = lambda p: tuple(map(str, p)) in names
        whole = lambda g: sum(1 for x in readable if x["group"] == g) == 3
        if kind != "int" and "topkeys" in self.profile and r.random() < 0.02 and has(["r", I("kt")]) \
                and all(has(["r", I(v)]) for v in ("v0", "v1", "v2")):
            return ["ref", ["r", ["k", ["r", I("kt")]]]]
        if kind != "int" and r.random() < 0.06 and "keys" in self.profile:
            # (a computed key may select ANY member: every member must be readable, or the read could
            #  close a true data-flow cycle in a free world)
            if l["group"] == "n" and has(["r", I("ks")]) and whole("n"):
                path = ["r", I("n"), ["k", ["r", I("ks")]]]
            elif l["group"] == "l" and has(["r", I("ki")]) and whole("l"):
                path = ["r", I("l"), ["k", ["r", I("ki")]]]
        return ["ref", path]

    def dterm(self, readable, depth, kind="num"):
        """A term that builds a ref/expression (builtins need the ref as first argument)."""
        for _ in range(12):
            t = self.term(readable, depth, kind)
            if P.is_deferred(t):
                return t
        return self.ref(readable, kind) or self.ref(readable, "num") or ["litexpr", enc(1.5)]

    def term(self, readable, depth, kind="num"):
        r = self.rng
        if depth <= 0 or r.random() < 0.25:
            t = self.ref(readable, kind) if r.random() < 0.7 else None
            return t or self.lit(kind)
        x = r.random()
        if kind == "int":
            if x < 0.75:
                op = r.choice(["and", "or", "xor", "lshift", "rshift", "add", "sub", "mul", "floordiv", "mod"])
                a = self.term(readable, depth - 1, "int")
                if op in ("lshift", "rshift"):
                    b = ["lit", enc(r.choice([0, 1, 2, 5]))]
                else:
                    b = self.term(readable, depth - 1, "int")
                return ["bin", op, a, b] if r.random() < 0.8 else ["bin", op, b, a]
            if x < 0.9:
                return ["un", "invert", self.term(readable, depth - 1, "int")]
            return ["un", "neg", self.term(readable, depth - 1, "int")]
        if x < 0.55:
            op = r.choice(["add", "sub", "mul", "truediv", "add", "sub", "mul", "floordiv", "mod", "pow",
                           "lt", "le", "ge", "gt", "eq", "ne"])
            if op in ("eq", "ne") and "eqne" not in self.profile:
                op = "le"    # _eq/_neq print as ==/!= which rebuilds a bool (see C11, KF6)
            a = self.term(readable, depth - 1)
            if op == "pow":
                b = ["lit", enc(r.choice([2, 3, 0.5, -1, 0, 1.5]))]
                if r.random() < 0.15:
                    a, b = ["lit", enc(r.choice([2, -3, 0.5, -2.5, -0.0, -1]))], a
            else:
                b = self.term(readable, depth - 1)
            return ["bin", op, a, b]
        if x < 0.63 or (x < 0.80 and "builtins" not in self.profile):
            return ["un", r.choice(["neg", "pos", "neg"]), self.term(readable, depth - 1)]
        if x < 0.70:
            return ["bi", "abs", self.dterm(readable, depth - 1)]
        if x < 0.75:
            if r.random() < 0.5:
                return ["bi", "round", self.dterm(readable, depth - 1)]
            nd = ["lit", enc(r.choice([0, 1, 2, -1]))] if r.random() < 0.7 else (self.ref(readable, "int") or ["lit", enc(1)])
            return ["bi", "round", self.dterm(readable, depth - 1), nd]
        if x < 0.79:
            if "mathfn" not in self.profile:
                return ["bi", "abs", self.dterm(readable, depth - 1)]
            return ["bi", r.choice(["trunc", "floor", "ceil"]), self.dterm(readable, depth - 1)]
        if x < 0.80 and "divmod" in self.profile:
            return ["bi", "divmod", self.dterm(readable, depth - 1), self.term(readable, depth - 1)]
        if x < 0.88:
            return self.term(readable, depth - 1, "int")
        # calls through the function container
        fn = r.choice(["lin", "sq", "sub3", "mean", "pick", "tot", "kws"])
        if fn == "kws":
            # several keyword arguments in call-site (not alphabetical) order, to a callee that observes the order
            names = r.sample(["z", "y", "x", "w"], r.randrange(2, 4))
            return ["call", "kws", [self.term(readable, depth - 1)] if r.random() < 0.4 else [],
                    [[nm, self.term(readable, depth - 1)] for nm in names]]
        if fn == "tot":
            # a task that reads a WHOLE nested container (depends on the enclosing ref, not on its members)
            names = {tuple(map(str, x["path"])) for x in readable}
            groups = [g for g in self.whole_groups if sum(1 for x in readable if x["group"] == g) == WHOLE_SIZE[g]]
            if groups and "keys" in self.profile:
                return ["call", "tot", [["ref", r.choice(WHOLE_PATHS[r.choice(groups)])]], []]
            fn = "sq"
        t = lambda: self.term(readable, depth - 1)
        if fn == "lin":
            kw = [["k", t()]] if r.random() < 0.5 else []
            args = [t()] + ([t()] if r.random() < 0.5 else [])
            return ["call", "lin", args, kw]
        if fn == "sq":
            return ["call", "sq", [t()], []]
        if fn == "sub3":
            kws = [[k, t()] for k in ("y", "z") if r.random() < 0.5]
            return ["call", "sub3", [t()], kws]
        if fn == "mean":
            return ["call", "mean", [t() for _ in range(r.randrange(1, 4))], ([["w", t()]] if r.random() < 0.4 else [])]
        return ["call", "pick", [self.term(readable, depth - 1, "int"), t()], ([["b", t()]] if r.random() < 0.6 else [])]

    def deferred_term(self, readable, depth, kind="num"):
        if "litexpr" in self.profile and self.rng.random() < 0.04:
            # a definition that reads no location at all (a task without dependencies)
            r = self.rng
            return ["bin", r.choice(["mul", "add", "sub"]), ["litexpr", enc(r.choice(self.floats))], ["lit", enc(r.choice(self.ints))]]
        for _ in range(20):
            t = self.term(readable, depth, kind)
            if P.is_deferred(t) and t[0] != "ref" or (t[0] == "ref" and self.rng.random() < 0.3):
                return t
        return ["bin", "add", self.ref(readable, "num") or ["litexpr", enc(1.0)], ["lit", enc(1.0)]]


def leaf_value(rng, kind):
    if kind == "int":
        return rng.choice(INTS)
    if kind == "bool":
        return rng.random() < 0.5
    if kind == "key_s":
        return rng.choice("xyz")
    if kind == "key_i":
        return rng.randrange(3)
    if kind == "key_t":
        return rng.choice(["v0", "v1", "v2"])
    x = rng.random()
    if x < 0.7:
        return rng.choice(FLOATS)
    if x < 0.9:
        return round(rng.uniform(-4, 4), 3)
    return float(rng.choice(INTS))


class HistoryGen:
    """Generates assignment histories validated step by step against the shadow.

    next_op() proposes an op; the caller commits it with accept(op) once the shadow dry run
    succeeded (next_op does the dry run itself and only returns ops Python can evaluate).
    """

    WEIGHTS = {"define": 0.40, "leafval": 0.25, "val": 0.08, "iop": 0.10, "unreg": 0.04,
               "ftask": 0.03, "knob": 0.03, "replace": 0.04, "unreg_task": 0.03, "reverse": 0.04, "query": 0.05}
    QUERIES = ("find_deps", "find_tasks", "find_tasks_all", "find_taskids", "mk_fun", "dump", "ref_queries", "iter_owner", "text", "value")

    def __init__(self, rng, layered=True, depth=3, weights=None, profile="full", world=None):
        self.rng = rng
        self.layered = layered
        self.depth = depth
        if world is None:
            world = make_world(rng, layered)
        self.world, self.locs = world
        self.shadow = Shadow(self.world)
        self.tg = TermGen(rng, profile)
        # KF6: LinearKnob does not declare the containers enclosing its targets, so a reader of a WHOLE
        # container is not re-run when a knob writes a member.  Each history therefore either reads every
        # kind of container as a whole (knob targets then stay outside those containers) or lets knobs
        # write into nested containers (whole reads then only on the containers knobs never write).
        self.wide_whole = rng.random() < 0.5
        if self.wide_whole:
            self.tg.whole_groups = tuple(WHOLE_SIZE)
        self.load_tg = self.tg if self.tg.profile <= frozenset(["keys"]) else TermGen(rng, "plain")
        self.load_tg.whole_groups = self.tg.whole_groups
        self.w = dict(self.WEIGHTS)
        if weights:
            self.w.update(weights)
        self.discards = {}
        self.ntask = 0
        self.by_ck = {self.shadow.ckey(l["path"]): l for l in self.locs}

    # -- helpers ----------------------------------------------------------------
    def task_targets(self):
        s = self.shadow
        return {ft["target"] for ft in s.ftasks.values()} | {t for kb in s.knobs.values() for t in kb["targets"]}

    def free_target(self, l):
        """A non-leaf location that is neither defined nor written by a function/knob task."""
        ck = self.shadow.ckey(l["path"])
        return l["group"] != "leaf" and ck not in self.shadow.defs and ck not in self.task_targets()

    def readable_for(self, target):
        s = self.shadow
        tck = s.ckey(target["path"])
        if self.layered:
            return [l for l in self.locs if l["layer"] < target["layer"]]
        out = []
        for l in self.locs:
            ck = s.ckey(l["path"])
            if l["group"] == target["group"] and l["group"] != "leaf" and ck != tck and False:
                continue
            if ck == tck or s.depends_on(ck, tck):
                continue
            out.append(l)
        return out

    def _choose_kind(self):
        ks = list(self.w)
        return self.rng.choices(ks, [self.w[k] for k in ks])[0]

    def propose(self):
        r, s = self.rng, self.shadow
        kind = self._choose_kind()
        if getattr(self, "_pending_reverse", None) and not self.layered and r.random() < 0.4:
            kind = "reverse"        # second half of the re-definition / reverse-dependency pattern
        nonleaf = [l for l in self.locs if l["group"] != "leaf"]
        leaves = [l for l in self.locs if l["group"] == "leaf"]
        tt = self.task_targets()
        if kind == "query":
            # read-only API calls between the operations (they must leave everything as it is)
            return ["query", r.choice(self.QUERIES), r.choice(self.locs)["path"]]
        if kind == "define":
            cands = [l for l in (nonleaf if self.layered else [x for x in self.locs if x["kind"] not in ("key_s", "key_i", "key_t")])
                     if s.ckey(l["path"]) not in tt]
            t = r.choice(cands)
            rd = self.readable_for(t)
            if not rd:
                return None
            return ["set", t["path"], ["t", self.tg.deferred_term(rd, r.randrange(1, self.depth + 1))]]
        if kind == "leafval":
            cands = [l for l in leaves if s.ckey(l["path"]) not in s.defs]
            if not cands:
                return None
            t = r.choice(cands)
            v = r.choice(t["choices"]) if "choices" in t else leaf_value(r, t["kind"])
            if r.random() < 0.12 and t["kind"] in ("float", "int", "bool"):
                v = self.same_value_other_type(t, v)
            return ["set", t["path"], ["v", enc(v)]]
        ftt = {ft["target"] for ft in s.ftasks.values()}
        ktt = tt - ftt
        if kind == "val":
            # (a location written by a linear knob may also be assigned by hand: the knob adds its next increment to
            #  whatever the location holds then)
            t = r.choice([l for l in nonleaf if s.ckey(l["path"]) not in ftt])
            v = leaf_value(r, "float")
            if r.random() < 0.12:
                v = self.same_value_other_type(t, v)
            return ["set", t["path"], ["v", enc(v)]]
        if kind == "iop":
            cands = [l for l in self.locs if l["kind"] in ("float", "int") and s.ckey(l["path"]) not in ftt
                     and (l["group"] != "leaf" or not self.layered or True)]
            t = r.choice(cands)
            on_knob_target = s.ckey(t["path"]) in ktt
            isint = t["kind"] == "int" and s.ckey(t["path"]) not in s.defs
            if isint:
                op = r.choice(["add", "sub", "mul", "and", "or", "xor", "lshift", "rshift", "floordiv", "mod"])
            else:
                op = r.choice(["add", "sub", "mul", "truediv", "add", "sub", "floordiv", "mod", "pow"])
            # once values are stale (load registers without evaluating) the current value must not
            # be captured into a definition: no deferred operand on an undefined location
            cur = self._cur(t)
            plain_capture = s.ckey(t["path"]) not in s.defs and (
                s.stale or not isinstance(cur, (int, float)) or cur != cur or cur in (float("inf"), float("-inf")))
            # (an in-place update with an expression operand on an undefined location captures the current value as
            #  a literal: only finite numbers are literals of the expression language)
            if r.random() < 0.6 or t["group"] == "leaf" or plain_capture or on_knob_target:
                v = r.choice([0, 1, 2, 3]) if op in ("lshift", "rshift", "pow") else leaf_value(r, "int" if isint else "float")
                return ["iop", t["path"], op, ["v", enc(v)]]
            rd = self.readable_for(t)
            if not rd:
                return None
            term = self.tg.deferred_term(rd, r.randrange(1, 3), "int" if isint else "num")
            return ["iop", t["path"], op, ["t", term]]
        if kind == "unreg":
            if not s.defs:
                return None
            ck = r.choice(sorted(s.defs, key=repr))
            return ["unreg", self.by_ck[ck]["path"]] if ck in self.by_ck else None
        if kind == "ftask":
            cands = [l for l in nonleaf if self.free_target(l) and l["kind"] == "float" and l["group"] not in ("n", "l")]
            dep0 = [l for l in leaves if l["kind"] == "float" and s.ckey(l["path"]) not in s.defs]
            if not cands or not dep0:
                return None
            t = r.choice(cands)
            rd = [l for l in self.readable_for(t) if l["kind"] == "float"]
            if not rd:
                return None
            deps = [r.choice(dep0)] + [r.choice(rd) for _ in range(r.randrange(0, 3))]
            self.ntask += 1
            return ["ftask", "F%d" % self.ntask, [d["path"] for d in deps], t["path"],
                    [enc(r.choice([1.0, 2.0, -0.5])) for _ in deps], enc(r.choice([0.0, 1.5]))]
        if kind == "knob":
            cands = [l for l in nonleaf if self.free_target(l) and l["kind"] == "float"
                     and l["group"] not in self.tg.whole_groups and isinstance(self._cur(l), float)]
            if not cands:
                return None
            r.shuffle(cands)
            targets = cands[:r.randrange(1, 4)]
            rd = None
            for t in targets:
                x = {tuple(map(repr, l["path"])) for l in self.readable_for(t) if l["kind"] == "float"}
                rd = x if rd is None else rd & x
            src = [l for l in self.locs if tuple(map(repr, l["path"])) in rd]
            # the source must currently hold a float
            src = [l for l in src if isinstance(self._cur(l), float)]
            if not src:
                return None
            self.ntask += 1
            return ["knob", "K%d" % self.ntask, r.choice(src)["path"],
                    [enc(r.choice([1.0, 0.5, -2.0, 0.25])) for _ in targets], [t["path"] for t in targets]]
        if kind == "replace":
            group = r.choice(["n", "l", "o"])
            members = [l for l in self.locs if l["group"] == group]
            if any(not self.free_target(l) for l in members):
                return None
            # LinearKnob lists only its source (not the owners) as dependency: replacing the
            # container that holds a knob source is outside what the task can observe
            if any(kb["source"][:2] == ["r", I(group)] for kb in s.knobs.values()):
                return None
            vals = [enc(leaf_value(r, "float")) for _ in members]
            if group == "n":
                node = {"dict": [[m["path"][-1][1], v] for m, v in zip(members, vals)]}    # the members' own (possibly renamed) keys
            elif group == "l":
                node = {"list": vals}
            else:
                node = {"obj": [[k, v] for k, v in zip("pqs", vals)]}
            return ["replace", ["r", I(group)], node]
        if kind == "reverse":
            # re-definition with FEWER dependencies, later followed by the reverse dependency: c = f(s, p);
            # c = g(s); p = h(c).  Only possible where the data-flow direction may change (free worlds).
            if self.layered:
                return None
            if getattr(self, "_pending_reverse", None):
                p_path, c_path = self._pending_reverse
                self._pending_reverse = None
                pck, cck = s.ckey(p_path), s.ckey(c_path)
                if pck in tt or cck not in s.defs or s.depends_on(cck, pck):
                    return None
                other = [l for l in self.readable_for(self.by_ck[pck]) if l["kind"] == "float"] if pck in self.by_ck else []
                extra = ["ref", r.choice(other)["path"]] if other else ["lit", enc(1.0)]
                return ["set", p_path, ["t", ["bin", r.choice(["add", "sub", "mul"]), ["ref", c_path], extra]]]
            cands = [ck for ck, t in s.defs.items() if ck in self.by_ck and len({repr(x) for x in P.term_paths(t)}) >= 2]
            if not cands:
                return None
            cck = r.choice(sorted(cands, key=repr))
            reads = []
            for x in P.term_paths(s.defs[cck]):
                if x not in reads and all(st[0] != "k" for st in x[1:]):
                    reads.append(x)
            if len(reads) < 2:
                return None
            keep = r.choice(reads)
            dropped = [x for x in reads if x != keep and s.ckey(x) in self.by_ck
                       and self.by_ck[s.ckey(x)]["kind"] == "float" and s.ckey(x) not in tt]
            if not dropped:
                return None
            self._pending_reverse = (r.choice(dropped), self.by_ck[cck]["path"])
            return ["set", self.by_ck[cck]["path"], ["t", ["bin", "mul", ["ref", keep], ["lit", enc(r.choice([3.0, 0.5, -2.0]))]]]]
        if kind in ("refresh", "cleanup", "verify"):
            return [kind]
        if kind == "load":
            pairs = []
            for _ in range(r.randrange(1, 4)):
                cands = [l for l in nonleaf if s.ckey(l["path"]) not in tt]
                t = r.choice(cands)
                if pairs and r.random() < 0.15:
                    t = self.by_ck[s.ckey(r.choice(pairs)[0])]
                rd = self.readable_for(t)
                # (a dump may define one target twice: the later pair wins with overwrite=True, the
                #  earlier one stays with overwrite=False)
                if rd and (all(p[0] != t["path"] for p in pairs) or r.random() < 0.5):
                    # (what a dump can carry: no literal-only expressions, no math.floor/ceil/trunc texts -- KF2)
                    pairs.append([t["path"], self.load_tg.deferred_term(rd, r.randrange(1, self.depth + 1))])
            return ["load", pairs, r.random() < 0.5] if pairs else None
        if kind == "unreg_task":
            names = sorted(s.ftasks) + sorted(s.knobs)
            if not names:
                return None
            return ["unreg_task", r.choice(names)]
        return None

    def same_value_other_type(self, l, default):
        """A value that compares == to the current content but has another type (2.0 -> 2, 1 -> True,
        3 -> 3.0): the assignment must still take effect (type is part of the value)."""
        cur = self._cur(l)
        if l["kind"] == "int" and (not isinstance(cur, int) or isinstance(cur, bool)):
            return default
        if isinstance(cur, bool):
            return int(cur) if l["kind"] != "bool" else default
        if isinstance(cur, int):
            if l["kind"] == "int":
                return bool(cur) if cur in (0, 1) else default   # stays usable by bitwise operators
            return float(cur) if abs(cur) < 2 ** 50 else default
        if isinstance(cur, float) and cur == cur and abs(cur) < 2 ** 50 and cur == int(cur):
            return int(cur) if l["kind"] == "float" else default
        return default

    def _cur(self, l):
        try:
            return self.shadow.expected_path(l["path"])
        except Exception:
            return None

    def next_op(self, tries=30):
        """Return (op, expected contents) for the next op that Python itself can evaluate."""
        for _ in range(tries):
            op = self.propose()
            if op is None:
                continue
            if op[0] == "set" and op[2][0] == "t" and P.term_depth(op[2][1]) > 12:
                continue
            trial = self.shadow.clone()
            try:
                trial.apply(op)
                exp = trial.all_expected()
                if not self.layered and op[0] in ("set", "iop", "ftask", "knob", "load") and trial.true_cycle() is not None:
                    raise Discard("true data-flow cycle")
                if op[0] == "iop":
                    ck = trial.ckey(op[1])
                    if ck in trial.defs and P.term_depth(trial.defs[ck]) > 30:
                        raise Discard("nesting bound")
            except Discard as exc:
                self.discards["Discard:" + str(exc)] = self.discards.get("Discard:" + str(exc), 0) + 1
                continue
            except RecursionError:
                self.discards["RecursionError"] = self.discards.get("RecursionError", 0) + 1
                continue
            except Exception as exc:
                k = type(exc).__name__
                self.discards[k] = self.discards.get(k, 0) + 1
                continue
            self.shadow = trial
            return op, exp
        return None, None
