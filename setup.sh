#!/bin/sh
# MANIFEST.setup_cmd: offline; warms the overlay build cache from /repo's working tree and
# checks that the tool chain the checks rely on is present. Nothing is fetched.
cd "$(dirname "$0")" || exit 1
/venv/bin/python -m vlib.build pure compiled asan || exit 1
/venv/bin/python -c "import numpy, scipy, lark, Cython; print('toolchain ok')" || exit 1
