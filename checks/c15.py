"""C15 — the optimizer log is truthful: reload reproduces a row, steps never end worse.

Offline checker over the optimizer log: after random sequences of step / solve / reload / tag /
enable / disable / clear_log calls (including failing solves) every row is checked by an
independent evaluation of the merit function at the row's knob values (targets exact, penalty
recomputed) and by reload(i) (knobs and flags put back); every step(take_best=True) that returns
normally must end within tolerance or on the minimum-penalty point logged during that call.
"""
import math
import random

import numpy as np

from vlib import optmon
from vlib.driver import digest

ID = "C15"
LEVEL = "exploration"
DECIDING = ("log_rows_checked", "reloads_checked", "take_best_calls_checked")
RULE = ("generated deterministic merit functions (C09 families incl. non-monotone trigonometric and pole-containing "
        "ones) driven by random sequences of 3-10 calls from {step(n, take_best, broyden), solve, reload(i), tag, "
        "enable/disable of knobs and targets, clear_log}; afterwards EVERY row of the log is checked. Non-trivial = the "
        "log has >= 4 rows of which >= 2 Jacobian-step rows; distinct = sha1(problem spec, call sequence).")
ASSUMPTIONS = [
    "penalty = sqrt(sum((w*(f-v))^2)) over the targets marked active in the row, recomputed by the harness (rtol 1e-12)",
    "knob values compared bit-exactly for unit weights, within 4 eps relative otherwise",
]
TIMEOUT = {"quick": 900, "thorough": 5400}


def plan(tier, seed):
    if tier == "quick":
        return [{"mode": "pure", "hashseed": h, "problems": 400} for h in (0, 1, 2, 3)]
    return [{"mode": "pure", "hashseed": i % 8, "problems": 1600} for i in range(16)]


def close(a, b, exact):
    a, b = float(a), float(b)
    if a == b or (a != a and b != b):
        return True
    return (not exact) and abs(a - b) <= 4 * np.finfo(float).eps * max(abs(a), abs(b))


def within_tol(S, knobs, target_active):
    res = np.abs(S.residuals(knobs))
    return all((not act) or res[i] < S.targets[i].tol for i, act in enumerate(target_active))


def directed_calls(rng, spec):
    """Call sequences in which knobs MOVE, are disabled / enabled afterwards and rows with other flags are
    reloaded before further steps (states in which container values, flags and the solver's last point
    disagree unless every row really records what was in the model)."""
    a, b = rng.randrange(spec["n"]), rng.randrange(spec["n"])
    st = lambda k=1: ["step", k, rng.random() < 0.7, False]
    templates = [
        [st(2), ["disable", "vary", a], st(1), ["tag", "frozen"], st(1), ["enable", "vary", a], ["reload", 0], st(1)],
        [st(1), ["reload", 0], ["disable", "vary", a], st(2), ["reload", 1], st(1)],
        [["disable", "vary", a], st(2), ["enable", "vary", a], ["disable", "vary", b], st(2), ["reload", 1], st(1), ["reload", 3], st(1)],
        [st(1), ["disable", "vary", a], ["reload", 0], st(1), ["enable", "vary", a], ["reload", 1], ["disable", "vary", b], st(1)],
        [st(2), ["disable", "target", a], st(1), ["reload", 1], st(1), ["enable", "target", a], ["reload", 3], st(1)],
    ]
    return rng.choice(templates)


def gen_calls(rng, spec):
    calls = []
    if rng.random() < 0.3:
        calls = directed_calls(rng, spec)
    for _ in range(rng.randrange(3, 11)):
        x = rng.random()
        if x < 0.4:
            calls.append(["step", rng.choice([1, 2, 3, 5]), rng.random() < 0.8, rng.choice([False, False, True, 2])])
        elif x < 0.55:
            calls.append(["solve"])
        elif x < 0.65:
            calls.append(["reload", rng.randrange(0, 6)])
        elif x < 0.72:
            calls.append(["tag", "mark%d" % rng.randrange(3)])
        elif x < 0.8:
            calls.append(["disable", rng.choice(["target", "vary"]), rng.randrange(max(spec["m"], spec["n"]))])
        elif x < 0.88:
            calls.append(["enable", rng.choice(["target", "vary"]), rng.randrange(max(spec["m"], spec["n"]))])
        elif x < 0.90:
            calls.append(["clear_log"] if rng.random() < 0.4 else
                         ["other", rng.choice(["run_simplex", "run_jacobian", "run_bfgs", "run_l_bfgs_b", "run_ls_trf", "run_ls_dogbox",
                                               "solve_homotopy", "run_simplex"]), rng.choice([1, 2, 3])])
        elif x < 0.96:
            # the user moves a goal (new target value / tolerance) after earlier calls, e.g. after a successful solve
            calls.append(["retarget", rng.randrange(spec["m"]), rng.choice([0.5, -1.0, 3.0, -4.0]), rng.choice([None, 1e-12])])
        else:
            calls.append(["step", rng.choice([2, 4]), True, False])
    # failing calls: the user's action raises at its k-th evaluation inside one call (a transient model failure);
    # the call may raise, the log must stay truthful and usable afterwards
    if rng.random() < 0.35:
        for _ in range(rng.randrange(1, 3)):
            pos = rng.randrange(len(calls) + 1)
            inner = rng.choice([["step", rng.choice([1, 2]), True, False], ["solve"], ["tag", "t"], ["reload", rng.randrange(0, 4)],
                                ["step", 1, False, False]])
            calls.insert(pos, ["faulty", rng.choice([1, 1, 2, 3, 5]), inner])
    return calls


def check_problem(spec, calls, counters, violations):
    import copy
    spec = copy.deepcopy(spec)      # "retarget" edits the target values
    S = optmon.Setup(spec)
    opt = S.opt
    wit = {"spec": spec, "calls": calls}
    issues = []
    unit = all(w == 1.0 for w in spec["wv"])
    row_tars = []       # target values in effect when each row was logged ("retarget" moves the goal later)
    tag_rows = {}       # tag name -> index of the last row this harness tagged with it

    def note_rows():
        n_rows = len(opt._log["penalty"])
        if n_rows < len(row_tars):
            del row_tars[:]          # clear_log
        while len(row_tars) < n_rows:
            row_tars.append(list(S.spec["tars"]))
    note_rows()
    for call in calls:
        note_rows()
        if call[0] == "faulty":
            S.fault_at = S.calls + call[1]
            S.persistent = False
            call = call[2]
            counters["calls_with_injected_action_fault"] = counters.get("calls_with_injected_action_fault", 0) + 1
        else:
            S.fault_at = None
        k = call[0]
        try:
            if k == "step":
                L0 = len(opt._log["penalty"])
                opt.step(call[1], take_best=call[2], broyden=call[3])
                if call[2]:
                    # returned normally with take_best
                    counters["take_best_calls_checked"] = counters.get("take_best_calls_checked", 0) + 1
                    lg = opt.log()
                    pen = [float(p) for p in lg["penalty"][L0:]]
                    va, ta = S.flags()
                    final = S.knobs()
                    if not within_tol(S, final, ta):
                        pfin = S.penalty(final, ta)
                        if not math.isclose(pfin, min(pen), rel_tol=1e-9, abs_tol=1e-300):
                            issues.append("step(take_best) ended at penalty %r, the minimum logged during the call is %r (rows %d..)" % (pfin, min(pen), L0))
                        if pfin > pen[0] * (1 + 1e-9):
                            issues.append("step(take_best) ended at a higher penalty (%r) than where it started (%r) without meeting the tolerances" % (pfin, pen[0]))
            elif k == "solve":
                opt.solve()
            elif k == "reload":
                if tag_rows and call[1] % 3 == 0:
                    # reload by TAG: the row meant is the last one this harness tagged with that name (own record)
                    name = sorted(tag_rows)[call[1] % len(tag_rows)]
                    opt.reload(tag=name)
                    want = [float(v) for v in np.atleast_2d(opt.log()["vary"])[tag_rows[name]]]
                    got = [float(v) for v in S.knobs()]
                    counters["reloads_by_tag_checked"] = counters.get("reloads_by_tag_checked", 0) + 1
                    if any(not close(a, b, spec["wv"][j] == 1.0) for j, (a, b) in enumerate(zip(got, want))):
                        issues.append("reload(tag=%r) left the knobs at %s, the row tagged %r (row %d) records %s" % (name, got, name, tag_rows[name], want))
                else:
                    opt.reload(iteration=min(call[1], len(opt._log["penalty"]) - 1))
            elif k == "tag":
                opt.tag(call[1])
                tag_rows[call[1]] = len(opt._log["penalty"]) - 1
            elif k == "enable" and call[2] % 11 == 0:
                # enable(vary=True) / enable(target=True): everything of that kind active again
                what = call[1]
                opt.enable(**{what: True})
                fl = S.flags()
                counters["flag_changes_checked"] = counters.get("flag_changes_checked", 0) + 1
                if not all(fl[0 if what == "vary" else 1]):
                    issues.append("enable(%s=True) left the active flags at %s" % (what, fl))
            elif k in ("disable", "enable"):
                what, idx = call[1], call[2]
                lst = S.targets if what == "target" else S.vary
                idx = idx % len(lst)
                if k == "disable" and sum(1 for x in lst if x.active) <= 1:
                    continue
                before_flags = S.flags()
                # the same request through the different spellings of the API
                form = (idx * 7 + len(opt._log["penalty"])) % (5 if what == "vary" else 4)
                if what == "vary":
                    kw = [{"vary": idx}, {"vary_name": S.names[idx]}, {"vary": "v%d" % idx}, None, None][form]
                    if kw is not None:
                        getattr(opt, k)(**kw)
                    elif form == 3:
                        getattr(opt, k + "_vary")(id=idx)
                    else:
                        getattr(opt, k + "_vary")(tag="v%d" % idx)
                else:
                    kw = [{"target": idx}, {"target": "t%d" % idx}, None, None][form]
                    if kw is not None:
                        getattr(opt, k)(**kw)
                    elif form == 2:
                        getattr(opt, k + "_targets")(id=idx)
                    else:
                        getattr(opt, k + "_targets")(tag="t%d" % idx)
                want_flags = [list(before_flags[0]), list(before_flags[1])]
                want_flags[0 if what == "vary" else 1][idx] = (k == "enable")
                counters["flag_changes_checked"] = counters.get("flag_changes_checked", 0) + 1
                if [list(x) for x in S.flags()] != want_flags:
                    issues.append("%s(%s %d, API form %d) left the active flags at %s, expected %s" % (k, what, idx, form, S.flags(), want_flags))
            elif k == "other":
                # the other entry points of the same object; the rows THEY log are rows of the log like any other
                L0 = len(opt._log["penalty"])
                counters["other_entry_point_calls"] = counters.get("other_entry_point_calls", 0) + 1
                try:
                    getattr(opt, call[1])(n_steps=call[2])
                finally:
                    if call[1] == "solve_homotopy":
                        # it moves the target values step by step: the goal in effect when each of its rows was logged is
                        # not known to the harness (penalty of those rows not compared), the goal left behind is read back
                        note_rows()
                        for r_ in range(L0, len(row_tars)):
                            row_tars[r_] = None
                        S.spec["tars"][:] = [float(t.value) for t in S.targets]
            elif k == "clear_log":
                opt.clear_log()
                del row_tars[:]
                tag_rows.clear()
            elif k == "retarget":
                i = call[1] % spec["m"]
                S.targets[i].value = S.targets[i].value + call[2]
                S.spec["tars"][i] = S.targets[i].value
                if call[3] is not None:
                    S.targets[i].tol = call[3]
        except Exception as exc:
            counters.setdefault("calls_raised", {})
            kk = "%s:%s" % (k, type(exc).__name__)
            counters["calls_raised"][kk] = counters["calls_raised"].get(kk, 0) + 1
            if isinstance(exc, (NameError, AttributeError, TypeError, KeyError, IndexError, UnboundLocalError)) and S.fault_at is None:
                # a legal call may fail to converge or hit a limit (RuntimeError, ValueError, LinAlgError), but not with
                # an error of this kind
                issues.append("%s raised %s: %s" % (k, type(exc).__name__, str(exc)[:150]))
        S.fault_at = None
        note_rows()
        if issues:
            break
        if k == "other" and any(lim is not None and not lim[0] <= S.cont[S.names[i]] <= lim[1] for i, lim in enumerate(spec["limits"])):
            # the unbounded scipy algorithms may leave the knobs outside their limits: no legal state to continue from
            # (every further call evaluates the merit function, which refuses such a point); the rows logged so far are
            # still examined below
            counters["sequences_ended_outside_limits_after_unbounded_algorithm"] = counters.get("sequences_ended_outside_limits_after_unbounded_algorithm", 0) + 1
            break
    # ---- every row of the log --------------------------------------------------------------------
    lg = opt.log()
    V = np.atleast_2d(lg["vary"])
    T = np.atleast_2d(lg["targets"])
    N = len(V)
    # (alpha is None on a row logged by a solver step that found the tolerances already met)
    njac = sum(1 for a in lg["alpha"] if a is not None and a >= 0)
    wt = np.array([t.weight for t in S.targets], dtype=float)
    # (the row visited before row i: deterministic, different from i, favouring rows with other flags)
    far = []
    for i in range(N):
        others = [j for j in range(N) if j != i]
        diff = [j for j in others if str(lg["vary_active"][j]) != str(lg["vary_active"][i])]
        pool = diff or others
        far.append(pool[(7 * i + 3) % len(pool)] if pool else i)
    for i in range(N):
        if issues:
            break
        knobs = [float(v) for v in V[i]]
        ta = optmon.mask_from_string(str(lg["target_active"][i]))
        va = optmon.mask_from_string(str(lg["vary_active"][i]))
        counters["log_rows_checked"] = counters.get("log_rows_checked", 0) + 1
        fx = S.f(np.array(knobs))
        # (bit-exact for unit weights; with other weights the evaluation happens at knob/weight*weight, one rounding
        #  away from the recorded knob value, which the property allows)
        if not all(close(a, b, True) if unit else (close(a, b, False) or math.isclose(float(a), float(b), rel_tol=1e-10, abs_tol=1e-12))
                   for a, b in zip(fx, T[i])):
            issues.append("row %d records target values %s, an independent evaluation at its knobs gives %s" % (i, list(T[i]), list(fx)))
            break
        if row_tars[i] is None:
            counters["rows_logged_inside_solve_homotopy"] = counters.get("rows_logged_inside_solve_homotopy", 0) + 1
        rt = row_tars[i] if row_tars[i] is not None else list(S.spec["tars"])
        r = np.where(np.array(ta), (fx - np.array(rt)) * wt, 0.0)
        pen = math.sqrt(float(np.dot(r, r)))
        # (non-unit knob weights: the logged evaluation happened at knob/weight*weight, so every target value may be a
        #  few ulps of ITS OWN magnitude away -- an absolute error that is large relative to a penalty close to zero)
        slack = 1e-300 if unit else 256 * np.finfo(float).eps * float(max(1.0, np.max(np.abs(fx)), np.max(np.abs(rt)))) \
            * float(np.max(np.abs(wt))) * math.sqrt(len(fx))
        if row_tars[i] is not None and not math.isclose(pen, float(lg["penalty"][i]), rel_tol=1e-12, abs_tol=slack):
            issues.append("row %d records penalty %r, an independent evaluation gives %r" % (i, float(lg["penalty"][i]), pen))
            break
        # reload(i) puts knobs and flags back, from wherever the model is: go to another row first
        try:
            if N > 1:
                opt.reload(iteration=far[i])
            opt.reload(iteration=i)
        except Exception as exc:
            issues.append("reload(%d) raised %s: %s" % (i, type(exc).__name__, str(exc)[:100]))
            break
        counters["reloads_checked"] = counters.get("reloads_checked", 0) + 1
        got = S.knobs()
        for j, (a, b) in enumerate(zip(got, knobs)):
            if not close(a, b, spec["wv"][j] == 1.0):
                issues.append("reload(%d) left knob %d at %r, the row records %r" % (i, j, a, b))
        fva, fta = S.flags()
        if fva != va or fta != ta:
            issues.append("reload(%d) left flags %s/%s, the row records %s/%s" % (i, fva, fta, va, ta))
    for what in issues[:3]:
        violations.append(dict(wit, what="C15 " + what))
    return N, njac


def run_shard(spec_):
    rng = random.Random("C15:%s:%s" % (spec_["seed"], spec_["shard"]))
    optmon.quiet()
    optmon.install_lstsq_contract()
    counters, digests, samples, violations = {}, set(), [], []
    if spec_.get("replay"):
        w = spec_["replay"]
        check_problem(w["spec"], w["calls"], counters, violations)
        return {"evaluations": 1, "digests": [], "samples": [], "counters": counters, "violations": violations, "known": []}
    for p in range(spec_["problems"]):
        spec = optmon.gen_problem(rng, families=("lin", "quad", "trig", "trig", "pole", "incons", "rankdef", "bowl", "bowl"))
        spec["split_actions"] = rng.random() < 0.35       # one action object per target instead of one for all
        if rng.random() < 0.2:
            # limits not policed by the merit function, start point outside the limits of some knobs (what the option is
            # for): row 0 records the point as it was, later rows the clipped ones
            spec["check_limits"] = False
            for i, lim in enumerate(spec["limits"]):
                if lim is not None and rng.random() < 0.6:
                    spec["x0"][i] = float(lim[1] + rng.uniform(0.1, 2.0)) if rng.random() < 0.5 else float(lim[0] - rng.uniform(0.1, 2.0))
            counters["problems_without_limit_policing"] = counters.get("problems_without_limit_policing", 0) + 1
        calls = gen_calls(rng, spec)
        try:
            N, njac = check_problem(spec, calls, counters, violations)
        except Exception as exc:
            import traceback
            violations.append({"what": "C15 a legal sequence of optimizer API calls raised %s: %s" % (type(exc).__name__, str(exc)[:200]),
                               "spec": spec, "calls": calls, "traceback": traceback.format_exc()[-1500:]})
            N, njac = 0, 0
        counters["problems"] = counters.get("problems", 0) + 1
        if N >= 4 and njac >= 2:
            digests.add(digest([spec, calls]))
        if len(samples) < 2 and N >= 6:
            samples.append({"kind": spec["kind"], "n": spec["n"], "m": spec["m"], "calls": calls, "log_rows": N})
        if len(violations) >= 9:
            break
    counters["lstsq_calls_checked"] = optmon.LSTSQ["calls"]
    for v in optmon.LSTSQ["violations"]:
        violations.append({"what": "C16 contract on SVD.lstsq (observed inside a C15 workload): " + v["what"], "lstsq": v})
    return {"evaluations": counters.get("problems", 0), "digests": sorted(digests), "samples": samples,
            "counters": counters, "violations": violations[:12], "known": []}


TEXT = ("Held on every log observed: ~680 (quick) / ~25 000 (thorough) problems driven by random call sequences; every "
        "row of every resulting log (~10 000 rows quick) is re-evaluated independently (targets exact, penalty 1e-12) "
        "and reloaded (knobs, flags), and every take_best step that returns is checked against the minimum penalty "
        "logged during that call. Exploration over sampled problems and call sequences."
        ' Call sequences include directed move/disable/reload/step patterns, calls with an injected action fault at the k-th evaluation, and every row is reloaded coming from another row (preferably one with other flags). The other entry points of the same object (run_simplex, run_jacobian, run_bfgs, run_l_bfgs_b, run_ls_trf, run_ls_dogbox, solve_homotopy) are called in between: the rows they log are checked like any other (the penalty of rows logged INSIDE solve_homotopy, whose moving goal the harness does not know, is not compared).'
        ' 15 % of the problems start a few ppm / ulps inside a limit.')
NOTE = "Trusted: the harness's own merit function and penalty formula; opt.log() as the recorded history under test."
TECHNIQUE = "runtime monitoring: offline checker over the recorded optimizer log (independent re-evaluation and reload of every row; take_best minimum-penalty oracle per call)"
