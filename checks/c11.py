"""C11 — printed expressions rebuild themselves: dump / load / copy_expr_from are faithful.

Monitors: (A) round trip per expression: eval(str(e)) in a namespace binding the labels of a FRESH
manager over equivalent containers must rebuild an expression that is structurally the same (own
walker over the public slots, constant sub-trees by value), has the same value and the same
dependencies, is == and hashes equally; (B) dump -> load into a fresh twin, then mirrored
follow-up assignments; overwrite=False keeps existing definitions; (C) copy_expr_from, plain and
with a label rebound to a nested reference, compared with a manager built directly.
"""
import random
import re

from vlib import gen, kf, lockstep, mgrmon
from vlib import programs as P
from vlib.driver import digest
from vlib.shadow import Discard, Shadow
from vlib.values import canon, enc

ID = "C11"
LEVEL = "exploration"
DECIDING = ("expressions_round_tripped", "managers_loaded", "managers_copied", "followups_compared")
RULE = ("(A) random expressions over the property's language (refs, finite numeric constants incl. negatives and "
        "exponents, every operator, abs / round(x, n) / divmod, math.floor/ceil/trunc, calls with positional and "
        "keyword numeric arguments) over worlds whose keys contain quotes, brackets, dots and container labels; "
        "(B) managers reached by layered assignment histories, dumped and loaded into a fresh manager, with "
        "overwrite True/False; (C) copy_expr_from plain and with the label rebound to a nested reference. "
        "Non-trivial = expression of depth >= 3 / manager with >= 3 definitions; distinct = sha1 of the term / (world, ops).")
ASSUMPTIONS = [
    "structural comparison uses the public read-only slots; sub-trees without refs compare by value (LiteralExpr(3) == 3)",
    "_eq/_neq are methods, not operators: they print as ==/!= (structural equality when re-read) and are outside the property's language",
    "complex literals and non-finite constants are outside the property's language",
]
TIMEOUT = {"quick": 900, "thorough": 5400}
PROFILE_A = frozenset(["keys", "builtins", "divmod", "mathfn"])
PROFILE_B = frozenset(["keys", "builtins", "divmod"])
LITS_F = gen.FLOATS + [-2.5e-7, 1e16, 123456789.125, 1e-300, -1e300, 0.1, -0.0, 5e-324, -5e-324]
LITS_I = gen.INTS + [-12, 1000000007, -2 ** 70]


def plan(tier, seed):
    if tier == "quick":
        return [{"mode": "compiled", "hashseed": 0, "exprs": 5000, "managers": 300},
                {"mode": "compiled", "hashseed": 1, "exprs": 5000, "managers": 300},
                {"mode": "pure", "hashseed": 2, "exprs": 5000, "managers": 300},
                {"mode": "pure", "hashseed": 3, "exprs": 5000, "managers": 300}]
    return [{"mode": "compiled" if i % 2 == 0 else "pure", "hashseed": i % 8, "exprs": 16000, "managers": 1300}
            for i in range(32)]


def has_ref(e, R):
    if not isinstance(e, R.BaseRef):
        return False
    if isinstance(e, R.MutableRef):
        return True
    if isinstance(e, R.BinOpExpr):
        return has_ref(e._lhs, R) or has_ref(e._rhs, R)
    if isinstance(e, (R.UnaryOpExpr, R.LiteralExpr)):
        return has_ref(e._arg, R)
    if isinstance(e, R.BuiltinRef):
        return has_ref(e._arg, R) or any(has_ref(p, R) for p in e._params)
    if isinstance(e, R.CallRef):
        return has_ref(e._func, R) or any(has_ref(a, R) for a in e._args) or any(has_ref(v, R) for _, v in e._kwargs)
    raise TypeError(type(e))


def norm(e, R):
    """Structure of an expression as nested tuples (constant sub-trees by value)."""
    if not isinstance(e, R.BaseRef):
        return ("lit", canon(e))
    if not has_ref(e, R):
        return ("lit", canon(e._get_value()))
    if isinstance(e, R.Ref):
        return ("label", e._key)
    if isinstance(e, R.ItemRef):
        return ("item", norm(e._owner, R), norm(e._key, R))
    if isinstance(e, R.AttrRef):
        return ("attr", norm(e._owner, R), e._key)
    if isinstance(e, R.BinOpExpr):
        return (type(e).__name__, norm(e._lhs, R), norm(e._rhs, R))
    if isinstance(e, R.UnaryOpExpr):
        return (type(e).__name__, norm(e._arg, R))
    if isinstance(e, R.BuiltinRef):
        return ("builtin", e._op.__name__, norm(e._arg, R), tuple(norm(p, R) for p in e._params))
    if isinstance(e, R.CallRef):
        return ("call", norm(e._func, R), tuple(norm(a, R) for a in e._args), tuple((k, norm(v, R)) for k, v in e._kwargs))
    raise TypeError(type(e))


def has_mathfn(term):
    if term[0] == "bi" and term[1] in ("trunc", "floor", "ceil"):
        return True
    if term[0] in ("bin", "un", "bi"):
        return any(has_mathfn(t) for t in term[2:] if isinstance(t, list))
    if term[0] == "call":
        return any(has_mathfn(t) for t in term[2]) or any(has_mathfn(t) for _, t in term[3])
    return False


def outcome(fn):
    try:
        return ("ok", canon(fn()))
    except Exception as exc:
        return ("exc", type(exc).__name__)


def part_a(spec, rng, counters, digests, samples, violations, known):
    import xdeps.refs as R
    for n in range(spec["exprs"]):
        if n % 25 == 0:
            world, locs = gen.make_world(rng, True, hostile=rng.random() < 0.8)
            ra, rb = P.Runner(world), P.Runner(world)
            sh = Shadow(world)
            tg = gen.TermGen(rng, PROFILE_A)
            tg.floats, tg.ints = LITS_F, LITS_I
        term = tg.deferred_term(locs, rng.randrange(1, 6))
        try:
            sh.guard_literals(term)   # literal-only sub-terms are computed at build time, whatever else fails
            sh.eval(term)       # guarded dry run: drops terms Python cannot evaluate in reasonable time
        except Discard:
            counters["skipped_too_big"] = counters.get("skipped_too_big", 0) + 1
            continue
        except Exception:
            pass
        try:
            e = ra.build(term)
        except Exception:
            counters["python_rejects_at_build"] = counters.get("python_rejects_at_build", 0) + 1
            continue
        if not isinstance(e, R.BaseRef):
            continue
        text = str(e)
        if re.search(NONFINITE, text):
            # a literal-only sub-term folded to a non-finite constant: outside the property's language
            counters["skipped_non_finite_constant"] = counters.get("skipped_non_finite_constant", 0) + 1
            continue
        counters["expressions_round_tripped"] = counters.get("expressions_round_tripped", 0) + 1
        wit = {"world": world, "term": term, "text": text}
        try:
            e2 = eval(text, {}, dict(rb.refs))
        except Exception as exc:
            if has_mathfn(term) and isinstance(exc, NameError) and kf.is_open("KF2", ID):
                known.append(kf.known("KF2"))
                counters["kf2_expressions"] = counters.get("kf2_expressions", 0) + 1
                continue
            violations.append(dict(wit, what="C11 text %r does not evaluate in the labels namespace: %s: %s" % (
                text, type(exc).__name__, str(exc)[:200])))
            continue
        if has_mathfn(term):
            counters["mathfn_expressions_that_reloaded"] = counters.get("mathfn_expressions_that_reloaded", 0) + 1
        if not isinstance(e2, R.BaseRef):
            violations.append(dict(wit, what="C11 text %r rebuilds a plain %s, not an expression" % (text, type(e2).__name__)))
            continue
        n1, n2 = norm(e, R), norm(e2, R)
        if n1 != n2:
            violations.append(dict(wit, what="C11 %r rebuilds a structurally different expression: %s vs %s" % (text, n1, n2)))
            continue
        if not (e == e2) or hash(e) != hash(e2):
            violations.append(dict(wit, what="C11 rebuilt expression not equal / hash differs: %r vs %r" % (text, str(e2))))
            continue
        v1, v2 = outcome(e._get_value), outcome(e2._get_value)
        if v1 != v2:
            violations.append(dict(wit, what="C11 %r evaluates to %s, rebuilt to %s" % (text, v1, v2)))
            continue
        d1, d2 = sorted(map(str, e._get_dependencies())), sorted(map(str, e2._get_dependencies()))
        if d1 != d2:
            violations.append(dict(wit, what="C11 %r dependencies %s, rebuilt %s" % (text, d1, d2)))
            continue
        if P.term_depth(term) >= 3:
            digests.add(digest(term))
        if len(samples) < 3 and P.term_depth(term) >= 4:
            samples.append({"text": text})
        if len(violations) >= 10:
            return


def relabel_path(p):
    return ["s", gen.I("sub")] + [(["k", relabel_path(st[1])] if st[0] == "k" else st) for st in p[1:]] if p[0] == "r" \
        else [p[0]] + [(["k", relabel_path(st[1])] if st[0] == "k" else st) for st in p[1:]]


def relabel(x):
    if isinstance(x, list):
        if len(x) == 2 and x[0] == "ref":
            return ["ref", relabel_path(x[1])]
        return [relabel(v) for v in x]
    return x


def relabel_op(op):
    if op[0] == "set":
        return ["set", relabel_path(op[1]), [op[2][0], relabel(op[2][1]) if op[2][0] == "t" else op[2][1]]]
    if op[0] == "iop":
        return ["iop", relabel_path(op[1]), op[2], [op[3][0], relabel(op[3][1]) if op[3][0] == "t" else op[3][1]]]
    if op[0] == "unreg":
        return ["unreg", relabel_path(op[1])]
    raise ValueError(op)


STOP = "stop: same exception on both sides"


def dump_vs_tasks(mgr):
    """dump() must describe the definitions the manager holds NOW (read independently from its task table)."""
    import xdeps.tasks as T
    held = sorted((str(t.taskid), str(t.expr)) for t in mgr.tasks.values() if isinstance(t, T.ExprTask))
    got = sorted(map(tuple, mgr.dump()))
    if got != held:
        a, b = dict(got), dict(held)
        return "dump() does not list the definitions the manager holds: %s" % (
            [(k, a.get(k), b.get(k)) for k in sorted(set(a) | set(b)) if a.get(k) != b.get(k)][:3],)
    return None


def mirrored(real, twin, op, op2, counters, relab=False):
    out = []
    for rn, o in ((real, op), (twin, op2)):
        try:
            rn.exec_op(o)
            exc = None
        except Exception as e:
            exc = type(e).__name__
        cont = {k: canon(v) for k, v in rn.contents().items()}
        out.append((exc, cont, sorted(map(tuple, rn.mgr.dump()))))
        stale = dump_vs_tasks(rn.mgr)
        if stale:
            return "follow-up %s: %s" % (op[0], stale)
    counters["followups_compared"] = counters.get("followups_compared", 0) + 1
    (ea, ca, da), (eb, cb, db) = out
    if ea != eb:
        return "follow-up %s: original %s, copy %s" % (op[0], ea or "returned", eb or "returned")
    if ea is not None:
        # both raised the same error during the recomputation: the tasks that ran before the raising one
        # depend on which valid order each manager chose, the partial states are not comparable
        counters["followups_ended_by_same_exception_on_both"] = counters.get("followups_ended_by_same_exception_on_both", 0) + 1
        return STOP
    if relab:
        cb = {(("r" + k[len("s['sub']"):]) if k.startswith("s['sub']") else k): v for k, v in cb.items()}
    if ca != cb:
        diff = [(k, ca.get(k), cb.get(k)) for k in sorted(set(ca) | set(cb)) if ca.get(k) != cb.get(k)]
        return "follow-up %s leaves different contents: %s" % (op[0], diff[:3])
    if not relab and da != db:
        return "follow-up %s leaves different definitions" % op[0]
    return None


# constants outside the property's language: inf / nan / complex (literal-only sub-terms fold to them,
# e.g. (-8.0) ** 0.5, or an in-place update captures one); repr(complex(-0.0, -0.0)) does not even re-read as itself
NONFINITE = r"\b(inf|nan)\b|[0-9.]j\b"


def buildable(shadow, runner, term):
    """Can Python build this term, and does it print with finite constants only (the property's language)?"""
    try:
        shadow.guard_literals(term)
        shadow.eval(term)
        text = str(runner.build(term))
    except Exception:
        return False
    return not re.search(NONFINITE, text)


def part_bc(spec, rng, counters, digests, samples, violations, known):
    import xdeps.tasks as T
    W = {"define": 0.5, "leafval": 0.2, "val": 0.1, "iop": 0.12, "unreg": 0.08, "ftask": 0, "knob": 0, "replace": 0,
         "unreg_task": 0}
    for n in range(spec["managers"]):
        world = gen.make_world(rng, True, hostile=rng.random() < 0.8)
        hg = gen.HistoryGen(rng, layered=True, depth=rng.choice([2, 3, 4]), profile=PROFILE_B, weights=W, world=world)
        hg.tg.floats, hg.tg.ints = LITS_F, LITS_I
        ls = lockstep.LockStep(hg.world)
        bad = False
        for _ in range(rng.randrange(6, 25)):
            op, exp = hg.next_op()
            if op is None:
                break
            f = ls.step(op, exp)
            if f:
                bad = True
                if not (f["kind"] == "mismatch" and kf.is_open("KF1", ID) and mgrmon.shadow_structural_cycle(hg.shadow, ls.runner)):
                    violations.append({"what": "C11 history (C01 oracle) failed: %s" % (f,), "world": hg.world, "ops": list(ls.ops)})
                break
        if bad:
            continue
        real = ls.runner
        dump = real.mgr.dump()
        if any(re.search(NONFINITE, rhs) for _, rhs in dump):
            counters["managers_skipped_non_finite_constant"] = counters.get("managers_skipped_non_finite_constant", 0) + 1
            continue
        wit = {"world": hg.world, "ops": list(ls.ops)}
        mode = rng.choice(["load", "load", "load-keep", "copy", "copy-rebind", "copy-keep", "copy-rebind-keep"])
        counters["mode_" + mode] = counters.get("mode_" + mode, 0) + 1
        relab = False
        try:
            if mode.startswith("load"):
                twin = P.Runner(P.world_from_runner(real))
                kept = {}
                if mode == "load-keep" and dump:
                    # pre-existing definitions on some of the targets must survive overwrite=False
                    for ck in rng.sample(sorted(hg.shadow.defs, key=repr), max(1, len(hg.shadow.defs) // 3)):
                        path = mgrmon.ck_to_path(ck)
                        l = hg.by_ck.get(ck)
                        rd = hg.readable_for(l) if l else []
                        if not rd:
                            continue
                        t = hg.tg.deferred_term(rd, 2)
                        if not buildable(hg.shadow, real, t):
                            continue
                        try:
                            twin.mgr.register(T.ExprTask(twin.mkref(path), twin.build(t)))
                        except Exception:
                            continue
                        kept[str(twin.mkref(path))] = str(twin.mgr.tasks[twin.mkref(path)].expr)
                    twin.mgr.dump()            # what is there before loading (a query: must not influence later answers)
                    twin.mgr.load(dump, overwrite=False)
                    got = dict(twin.mgr.dump())
                    stale = dump_vs_tasks(twin.mgr)
                    if stale:
                        violations.append(dict(wit, what="C11 after load(overwrite=False): " + stale))
                    for k, v in kept.items():
                        if got.get(k) != v:
                            violations.append(dict(wit, what="C11 load(overwrite=False) replaced the existing definition of %s: %r -> %r" % (k, v, got.get(k))))
                    want = dict(dump)
                    want.update(kept)
                    if got != want:
                        violations.append(dict(wit, what="C11 load(overwrite=False): definitions %s" % (
                            [(k, got.get(k), want.get(k)) for k in set(got) | set(want) if got.get(k) != want.get(k)][:3])))
                    counters["managers_loaded"] = counters.get("managers_loaded", 0) + 1
                    continue
                twin.mgr.dump()                # the (empty) state before loading
                labels_before = dict(twin.mgr.containers)
                twin.mgr.load(dump)
                if set(labels_before) != set(twin.mgr.containers) or any(twin.mgr.containers[k] is not v for k, v in labels_before.items()):
                    violations.append(dict(wit, what="C11 load() changed the receiving manager's label -> container map: %s -> %s" % (
                        sorted(labels_before), sorted(map(str, twin.mgr.containers)))))
                    continue
                counters["managers_loaded"] = counters.get("managers_loaded", 0) + 1
                if sorted(map(tuple, twin.mgr.dump())) != sorted(map(tuple, dump)):
                    a, b = dict(dump), dict(twin.mgr.dump())
                    violations.append(dict(wit, what="C11 dump of the loaded manager differs: %s" % (
                        [(k, a.get(k), b.get(k)) for k in set(a) | set(b) if a.get(k) != b.get(k)][:3])))
                    continue
            else:
                # copy_expr_from into a second manager; reference = manager built directly (M3)
                node_r = P.node_from_obj(real.data["r"])
                others = {lab: P.node_from_obj(real.data[lab]) for lab in real.data if lab != "r"}
                twice = False
                if mode.startswith("copy-rebind"):
                    relab = True
                    world2 = {"labels": dict({"s": {"dict": [[enc("sub"), node_r], [enc("other"), enc(1.0)]]}}, **others)}
                    if mode == "copy-rebind" and rng.random() < 0.5:
                        # the receiving manager also has its own container r: a rebound copy followed by a
                        # plain copy (the binding of one call must not outlive it)
                        twice = True
                        world2["labels"]["r"] = node_r
                else:
                    world2 = {"labels": dict({"r": node_r}, **others)}
                twin, m3 = P.Runner(world2), P.Runner(world2)
                rp = relabel_path if relab else (lambda p: p)
                rt = relabel if relab else (lambda t: t)
                expected = {}
                kept = {}
                if mode.endswith("-keep") and hg.shadow.defs:
                    # definitions that already exist in the receiving manager must survive overwrite=False
                    for ck in rng.sample(sorted(hg.shadow.defs, key=repr), max(1, len(hg.shadow.defs) // 3)):
                        if ck[0] != "r":
                            continue
                        path = rp(mgrmon.ck_to_path(ck))
                        l = hg.by_ck.get(ck)
                        rd = hg.readable_for(l) if l else []
                        if not rd:
                            continue
                        t0 = hg.tg.deferred_term(rd, 2)
                        if not buildable(hg.shadow, real, t0):
                            continue
                        t = rt(t0)
                        for rn in (twin, m3):
                            rn.mgr.register(T.ExprTask(rn.mkref(path), rn.build(t)))
                        kept[ck] = True
                for ck, term in hg.shadow.defs.items():
                    if ck[0] != "r" or ck in kept:
                        continue
                    path = rp(mgrmon.ck_to_path(ck))
                    m3.mgr.register(T.ExprTask(m3.mkref(path), m3.build(rt(term))))
                bindings = {real.refs["r"]: twin.refs["s"]["sub"]} if relab else None
                labels_before = dict(twin.mgr.containers)
                twin.mgr.dump(), m3.mgr.dump()       # what is there before copying
                twin.mgr.copy_expr_from(real.mgr, "r", bindings=bindings, overwrite=not mode.endswith("-keep"))
                counters["managers_copied"] = counters.get("managers_copied", 0) + 1
                labels_after = dict(twin.mgr.containers)
                if set(labels_before) != set(labels_after) or any(labels_after[k] is not v for k, v in labels_before.items()):
                    violations.append(dict(wit, what="C11 copy_expr_from (%s) changed the receiving manager's label -> container map: %s -> %s" % (
                        mode, sorted(labels_before), {k: str(v) for k, v in labels_after.items()})))
                    continue
                if twice:
                    for ck, term in hg.shadow.defs.items():
                        if ck[0] == "r":
                            m3.mgr.register(T.ExprTask(m3.mkref(mgrmon.ck_to_path(ck)), m3.build(term)))
                    twin.mgr.copy_expr_from(real.mgr, "r")
                    counters["rebound_then_plain_copies"] = counters.get("rebound_then_plain_copies", 0) + 1
                stale = dump_vs_tasks(twin.mgr) or dump_vs_tasks(m3.mgr)
                if stale:
                    violations.append(dict(wit, what="C11 after copy_expr_from (%s): %s" % (mode, stale)))
                    continue
                a, b = dict(m3.mgr.dump()), dict(twin.mgr.dump())
                if a != b:
                    violations.append(dict(wit, what="C11 copy_expr_from (%s): definitions differ from the directly built manager: %s" % (
                        mode, [(k, a.get(k), b.get(k)) for k in set(a) | set(b) if a.get(k) != b.get(k)][:3])))
                    continue
                real = m3       # follow-ups: copy vs directly built manager (same labels)
        except Exception as exc:
            violations.append(dict(wit, what="C11 %s raised %s: %s" % (mode, type(exc).__name__, str(exc)[:300])))
            continue
        # mirrored follow-up assignments
        only_r = mode.startswith("copy")
        if relab and (mgrmon.has_structural_cycle(twin.mgr) or mgrmon.has_structural_cycle(real.mgr)):
            # rebinding a label to a nested reference puts every definition inside one container: the
            # ordering graph gets structural cycles (open finding KF1) and run order, hence values, become
            # schedule dependent; definitions were compared above, behaviour is not comparable here
            counters["followups_skipped_structural_cycle"] = counters.get("followups_skipped_structural_cycle", 0) + 1
            if len(dump) >= 3:
                digests.add(digest([hg.world, ls.ops, mode]))
            continue
        for _ in range(rng.randrange(3, 8)):
            op, exp = hg.next_op()
            if op is None or op[0] not in ("set", "iop", "unreg"):
                continue
            if only_r and relab:
                try:
                    op = relabel_op(op)
                except ValueError:
                    continue
            if only_r and op[0] == "unreg" and tuple(op[1][:1]) != (("s",) if relab else ("r",)):
                continue
            why = mirrored(real, twin, op, op, counters)
            if why == STOP:
                break
            if why and relab and "different contents" in why and kf.is_open("KF1", ID) and mgrmon.declared_structural_cycle(real.mgr):
                # the follow-ups themselves can close a structural cycle inside the one container everything was rebound
                # to (KF1): the directly built manager and the copy register in different orders, values become
                # schedule dependent; `real` here is the directly built REFERENCE manager
                counters["followups_ended_by_structural_cycle_after_followup"] = \
                    counters.get("followups_ended_by_structural_cycle_after_followup", 0) + 1
                known.append(kf.known("KF1"))
                break
            if why:
                if "KeyError" in why and only_r:
                    # definitions under other labels are (by contract) not copied: unregistering one is not comparable
                    break
                violations.append(dict(wit, what="C11 after %s: %s" % (mode, why), followup=op))
                break
        if len(dump) >= 3:
            digests.add(digest([hg.world, ls.ops, mode]))
        if len(samples) < 5 and len(dump) >= 3 and rng.random() < 0.1:
            samples.append({"mode": mode, "dump": dump[:4]})
        if len(violations) >= 10:
            return


def run_shard(spec):
    rng = random.Random("C11:%s:%s" % (spec["seed"], spec["shard"]))
    mgrmon.install_run_events()
    counters, digests, samples, violations, known = {}, set(), [], [], []
    if spec.get("replay"):
        spec = dict(spec, exprs=300, managers=30)
    part_a(spec, rng, counters, digests, samples, violations, known)
    part_bc(spec, rng, counters, digests, samples, violations, known)
    return {"evaluations": counters.get("expressions_round_tripped", 0) + counters.get("managers_loaded", 0)
            + counters.get("managers_copied", 0), "digests": sorted(digests), "samples": samples,
            "counters": counters, "violations": violations[:12], "known": known}


TEXT = ("Held on every case observed: ~10 000 (quick) / ~500 000 (thorough) expressions round-tripped through text into "
        "a fresh manager (structure, ==, hash, value, dependencies) over worlds with hostile keys, and ~480 / ~40 000 "
        "managers dumped and loaded / copied (plain, rebound to a nested reference, overwrite=False) with mirrored "
        "follow-up assignments. Exploration over sampled expressions and histories."
        " The receiving manager's label map is compared before/after every copy and a rebound copy is followed by a plain copy into the same manager.")
NOTE = ("Trusted: the structural walker over public slots; the twin / directly-built reference managers. "
        "math.floor/ceil/trunc print as floor(x) etc. (KF2, classified by mechanism).")
TECHNIQUE = "runtime monitoring: round-trip oracle per expression (structure/value/dependencies against a fresh manager) + twin managers compared under mirrored follow-up assignments"
