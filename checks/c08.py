"""C08 — table row selection follows the documented selector semantics, in table order.

Monitor: reference model per selector (vlib/tableref.select implements the statement literally
on the raw columns) compared with rows[...], rows.indices[...] and rows.mask[...]; composition
rows[s1, s2] == rows[s1].rows[s2]; the same deterministic corpus is executed under several
PYTHONHASHSEED values in separate processes and the outputs are compared across seeds.
"""
import hashlib
import itertools
import random

import numpy as np

from vlib import kf
from vlib import tableref as TR
from vlib.driver import digest

ID = "C08"
LEVEL = "exploration"
DECIDING = ("single_selectors_compared", "selector_pairs_compared", "seeds_compared")
RULE = ("EXHAUSTIVE small scope: every index column over the alphabets {a, b, ab} and {a, A, b} up to length 4 "
        "(quick; pairs up to length 3) / 5 (thorough; pairs up to length 4) x every selector form (positions, position lists, masks, names, name::count with "
        "positive and negative counts, regular expressions with and without count and <</>> shifts, inclusive name "
        "spans, closed / half-open value ranges over a column with ties and infinities, plain slices, name lists) "
        "x every PAIR of selectors for the composition law; plus random tables up to 200 rows; each corpus executed "
        "under 3 (quick) / 8 (thorough) hash seeds. Non-trivial = selector denotes >= 1 row or must raise; distinct "
        "= sha1(table, selector[s]).")
ASSUMPTIONS = [
    "unsorted position lists are compared in list order (as numpy indexing does); negative positions modulo the length",
    "selectors whose <</>> shift lands outside the table are not generated",
]
TIMEOUT = {"quick": 900, "thorough": 5400}
VALS = [0.5, 1.0, 1.0, 2.5, float("-inf"), float("inf"), 1.0, 0.0]


def plan(tier, seed):
    if tier == "quick":
        return [{"mode": "pure", "hashseed": h, "corpus": "small", "maxlen": 4, "pairlen": 3, "random_tables": 40} for h in (0, 1, 2)]
    return [{"mode": "pure", "hashseed": h, "corpus": "small", "maxlen": 5, "pairlen": 4, "random_tables": 400} for h in range(8)]


UNIQ = [0]


def make_table(names):
    from xdeps import Table
    n = len(names)
    return Table({"name": np.array(names, dtype=object), "x": np.arange(n, dtype=float),
                  "v": np.array([VALS[i % len(VALS)] for i in range(n)], dtype=float)})


def selectors(names, alphabet):
    n = len(names)
    a0, a1, a2 = alphabet
    sels = [None] + list(alphabet) + ["%s::%d" % (a, k) for a in alphabet for k in (0, 1, -1, -2)]
    sels += ["a.*", ".*", "[ab]", "a|b", "a.*::0", ".*::1", ".*::-1", "%s::0>>1" % a0, ".*::0<<1", "zz", "A", "[aA]::0", "B.*::-1"]
    sels += [slice(x, y) for x in (None, a0, a1) for y in (None, a1, a2, a0 + "::1")]
    sels += [slice(lo, hi, "v") for lo in (None, 0.5, 1.0) for hi in (None, 1.0, 2.5)] + [slice(float("-inf"), 0.5, "v")]
    sels += [slice(1, 3), slice(None, None, 2), slice(-2, None), slice(None, None, -1)]
    if n:
        sels += [0, -1, n - 1, [0, n - 1], [n - 1, 0], [True] + [False] * (n - 1), [False] * n, [a0], [a1 + "::-1", a0]]
        sels += [np.array([i % 2 == 0 for i in range(n)])]
        # a list mixing names and positions (object array): resolved element by element, in the order given
        mixed = np.empty(3, dtype=object)
        mixed[:] = [a0, n - 1, a1 + "::-1"]
        sels += [mixed]
        # positions counted from the end, as lists and as integer arrays of several dtypes
        sels += [[-1, 0], np.array([-1, 0]), np.array([n - 1, -n]), np.array([-1, -1], dtype=np.int32), np.array([0, -n], dtype=np.int16)]
    return sels


def sel_text(sel):
    if isinstance(sel, slice):
        return "slice(%r,%r,%r)" % (sel.start, sel.stop, sel.step)
    if hasattr(sel, "dtype"):
        return "array(%s)" % sel.tolist()
    return repr(sel)


def oracle(names, cols, sel):
    try:
        return ("v", TR.select(names, cols, sel))
    except KeyError:
        return ("e", "KeyError")
    except IndexError:
        return ("e", "IndexError")


def observe(t, sel):
    """All three views of one selector (or pair, given as tuple): positions, mask, rows."""
    n = len(t)
    out = {}
    # the caller's selector objects (lists, arrays) must come back unchanged from every call: a selector denotes the
    # same rows from one use to the next
    parts = sel if isinstance(sel, tuple) else (sel,)
    snaps = [(p_, p_.copy() if hasattr(p_, "dtype") else list(p_)) for p_ in parts if isinstance(p_, list) or hasattr(p_, "dtype")]

    def args_intact(where):
        for p_, snap in snaps:
            same = (p_.shape == snap.shape and p_.dtype == snap.dtype and all(a is b or a == b for a, b in zip(p_.tolist(), snap.tolist()))) \
                if hasattr(p_, "dtype") else (len(p_) == len(snap) and all(a is b or a == b for a, b in zip(p_, snap)))
            if not same:
                out.setdefault("aliasing", "%s modified the caller's selector object: it was %s and is now %s" % (
                    where, snap.tolist() if hasattr(snap, "tolist") else snap, p_.tolist() if hasattr(p_, "tolist") else p_))
                if hasattr(p_, "dtype"):
                    p_[...] = snap
                else:
                    p_[:] = snap
    try:
        raw = t.rows.indices[sel]
        got = np.atleast_1d(raw)
        out["indices"] = ("v", [int(i) % n if n else int(i) for i in got])
        hold(raw)
    except Exception as exc:
        out["indices"] = ("e", type(exc).__name__)
    args_intact("rows.indices[...]")
    try:
        m = t.rows.mask[sel]
        out["mask"] = ("v", [int(i) for i in np.where(m)[0]])
        hold(m)
    except Exception as exc:
        out["mask"] = ("e", type(exc).__name__)
    args_intact("rows.mask[...]")
    try:
        sub = t.rows[sel]
        out["rows"] = ("v", [int(x) for x in sub._data["x"]], list(sub._data["name"]))
        hold(sub._data["x"])
    except Exception as exc:
        out["rows"] = ("e", type(exc).__name__)
    args_intact("rows[...]")
    # results handed out by EARLIER calls must not have changed (two results of one table alive at once)
    for arr, snap in HELD[:-3]:
        if not (arr.shape == snap.shape and np.array_equal(arr, snap)):
            out["aliasing"] = "an array returned by an earlier rows.* call changed from %s to %s after later calls" % (snap.tolist(), arr.tolist())
            break
    del HELD[:-6]
    return out


HELD = []


def hold(arr):
    if isinstance(arr, np.ndarray):
        HELD.append((arr, arr.copy()))


def compare(desc, names, exp, obs, counters, violations, known, sels_for_kf):
    """exp: ('v', positions) or ('e', type). Returns True if fine."""
    n = len(names)
    problems = []
    if exp[0] == "e":
        for k in ("indices", "rows"):
            if obs[k][0] != "e":
                problems.append("%s returned %s, the selector denotes no row (expected %s)" % (k, obs[k][1], exp[1]))
    else:
        pos = exp[1]
        if obs["indices"] != ("v", pos):
            problems.append("rows.indices gives %s, expected %s" % (obs["indices"][1:], pos))
        if obs["rows"][0] != "v" or obs["rows"][1] != pos or obs["rows"][2] != [names[i] for i in pos]:
            problems.append("rows[...] gives rows %s, expected %s (table order)" % (obs["rows"][1:2], pos))
        if obs["mask"] != ("v", sorted(set(pos))):
            problems.append("rows.mask gives %s, expected %s" % (obs["mask"][1:], sorted(set(pos))))
    if obs.get("aliasing"):
        problems.append(obs["aliasing"])
    if not problems:
        return True
    for nm, s in sels_for_kf:
        if kf.is_open("KF4", ID) and TR.kf4_literal_fast_path(nm, s):
            known.append(kf.known("KF4"))
            counters["kf4_cases"] = counters.get("kf4_cases", 0) + 1
            return False
    if len(violations) < 12:
        violations.append({"what": "C08 %s on index column %s: %s" % (desc, names, "; ".join(problems)),
                           "names": names, "selector": desc})
    return False


def run_table(names, alphabet, counters, digests, violations, known, fp, pairs=True, sels=None):
    t = make_table(names)
    del HELD[:]
    n = len(names)
    cols = {"x": list(t._data["x"]), "v": list(t._data["v"])}
    sels = sels if sels is not None else selectors(names, alphabet)
    single = []
    for sel in sels:
        exp = oracle(names, cols, sel)
        if exp[0] == "v" and any(i < 0 or i >= n for i in exp[1]):
            continue        # shift lands outside the table
        obs = observe(t, sel)
        fp.update(repr((names, sel_text(sel), obs)).encode())
        counters["single_selectors_compared"] = counters.get("single_selectors_compared", 0) + 1
        ok = compare(sel_text(sel), names, exp, obs, counters, violations, known, [(names, sel)])
        if ok and (exp[0] == "e" or exp[1]):
            digests.add(digest([names, sel_text(sel)]))
        if exp[0] == "v" and ok:
            single.append((sel, exp[1]))
    # ---- the SAME (warm) table after its index column was replaced through the API -- whole column assigned, deleted
    # (del / pop) and re-created, or rewritten cell by cell: every selector denotes rows of the column as it is now
    if n >= 2 and sels is not None or (n >= 2 and counters.get("tables", 0) % 3 == 0):
        how = ("setcol", "del+set", "pop+set", "cells", "setattr")[(counters.get("index_column_replacements", 0)) % 5]
        names2 = names[1:] + names[:1] if counters.get("index_column_replacements", 0) % 2 else names[::-1]
        if names2 == names:
            names2 = names[:-1] + [names[-1] + "q"]
        try:
            if how == "setcol":
                t["name"] = np.array(names2, dtype=object)
            elif how == "setattr":
                t.name = np.array(names2, dtype=object)
            elif how == "del+set":
                del t["name"]
                t["name"] = np.array(names2, dtype=object)
            elif how == "pop+set":
                t.pop("name")
                t["name"] = np.array(names2, dtype=object)
            else:
                for i_, v_ in enumerate(names2):
                    t["name", i_] = v_
        except Exception as exc:
            violations.append({"what": "C08 replacing the index column (%s) raised %s: %s" % (how, type(exc).__name__, str(exc)[:200]), "names": names})
            return
        counters["index_column_replacements"] = counters.get("index_column_replacements", 0) + 1
        if list(t._data["name"]) != names2:
            violations.append({"what": "C08 harness premise: index column after %s is %s, expected %s" % (how, list(t._data["name"]), names2), "names": names})
            return
        for sel in (sels if sels is not None else selectors(names2, alphabet)):
            exp = oracle(names2, cols, sel)
            if exp[0] == "v" and any(i < 0 or i >= n for i in exp[1]):
                continue
            obs = observe(t, sel)
            counters["selectors_after_index_column_replacement"] = counters.get("selectors_after_index_column_replacement", 0) + 1
            compare("%s after the index column %s was replaced (%s) by" % (sel_text(sel), names, how), names2, exp, obs, counters, violations, known, [(names2, sel)])
            if len(violations) >= 12:
                return
        # back to the original column (whole-column assignment) for the pair enumeration below
        t["name"] = np.array(names, dtype=object)
    # ---- other tables in the same process, built with OTHER regex flags, use the same selector text first:
    # the default table must still match case-insensitively (fresh pattern text per table, so that no
    # process-wide memo of an earlier default table can hide a leak)
    if n and len({x.lower() for x in names}) < len(set(names)) or (n and counters.get("tables", 0) % 7 == 0):
        from xdeps import Table
        import re as _re
        UNIQ[0] += 1
        letters = sorted({_re.escape(x[0]) for x in names if x}) or ["zz"]
        for pat in ("(?:%s).*|zz%d" % ("|".join(letters).lower(), UNIQ[0]), "%s|zq%d::0" % (_re.escape(names[0].lower()), UNIQ[0]),
                    "%s|zq%d::-1" % (_re.escape(names[-1].upper()), UNIQ[0])):
            other = Table({"name": np.array(names, dtype=object), "x": np.arange(n, dtype=float)}, regex_flags=0)
            try:
                other.rows.indices[pat]
            except Exception:
                pass
            exp = oracle(names, cols, pat)
            if exp[0] == "v" and any(i < 0 or i >= n for i in exp[1]):
                continue
            obs = observe(t, pat)
            counters["selectors_after_foreign_flags_table"] = counters.get("selectors_after_foreign_flags_table", 0) + 1
            compare("%r after a regex_flags=0 table used the same text" % pat, names, exp, obs, counters, violations, known, [(names, pat)])
    if not pairs:
        return
    for (s1, p1), (s2, _) in itertools.product(single, single):
        if s1 is None or s2 is None:
            continue
        if len(p1) != n and (isinstance(s2, (int, list)) or hasattr(s2, "dtype")):
            continue        # positions / masks are relative to the table they are applied to
        names1 = [names[i] for i in p1]
        cols1 = {k: [v[i] for i in p1] for k, v in cols.items()}
        e2 = oracle(names1, cols1, s2)
        if e2[0] == "v" and any(i < 0 or i >= len(p1) for i in e2[1]):
            continue
        exp = ("v", [p1[i] for i in e2[1]]) if e2[0] == "v" else e2
        desc = "(%s, %s)" % (sel_text(s1), sel_text(s2))
        obs = observe(t, (s1, s2))
        # the composition law itself, observed on the real table
        try:
            sub = t.rows[s1].rows[s2]
            chained = ("v", [int(x) for x in sub._data["x"]], list(sub._data["name"]))
        except Exception as exc:
            chained = ("e", type(exc).__name__)
        fp.update(repr((names, desc, obs, chained)).encode())
        counters["selector_pairs_compared"] = counters.get("selector_pairs_compared", 0) + 1
        ok = compare(desc, names, exp, obs, counters, violations, known, [(names, s1), (names1, s2)])
        if ok and (chained[0] != obs["rows"][0] or (chained[0] == "v" and chained[1:] != obs["rows"][1:])):
            if kf.is_open("KF4", ID) and (TR.kf4_literal_fast_path(names, s1) or TR.kf4_literal_fast_path(names1, s2)):
                known.append(kf.known("KF4"))
            elif len(violations) < 12:
                violations.append({"what": "C08 composition law on %s: rows[%s] gives %s but rows[s1].rows[s2] gives %s" % (
                    names, desc, obs["rows"][1:2], chained[1:2]), "names": names, "selector": desc})
        elif ok and (exp[0] == "e" or exp[1]):
            digests.add(digest([names, desc]))
        if len(violations) >= 12:
            return


def configured_tables(rng, ntab, counters, violations, known):
    """Tables built with NON-DEFAULT separators and regex flags (Table(..., sep_count=, sep_previous=, sep_next=,
    regex_flags=)): rows[s1, s2] equals rows[s1].rows[s2], and rows.indices / rows.mask describe the same rows, whatever
    the configuration; with the default flags every selector (written in the table's own separators) is also compared
    with the reference semantics."""
    import re as _re
    from xdeps import Table
    for _ in range(ntab):
        L = rng.randrange(2, 7)
        alphabet = rng.choice([["a", "b", "ab"], ["a", "A", "b"], ["mq", "MQ", "dr"]])
        names = [rng.choice(alphabet) for _ in range(L)]
        cfg = {}
        if rng.random() < 0.6:
            cfg["sep_count"] = rng.choice(["##", "@@"])
        if rng.random() < 0.5:
            cfg["sep_previous"], cfg["sep_next"] = "<~", "~>"
        if rng.random() < 0.5:
            cfg["regex_flags"] = rng.choice([0, _re.IGNORECASE])
        if not cfg:
            cfg["sep_count"] = "##"
        sc, sp, sn = cfg.get("sep_count", "::"), cfg.get("sep_previous", "<<"), cfg.get("sep_next", ">>")
        t = Table({"name": np.array(names, dtype=object), "x": np.arange(L, dtype=float), "v": np.arange(L, dtype=float) % 3}, **cfg)
        counters["configured_tables"] = counters.get("configured_tables", 0) + 1
        s2s = []
        for nm in sorted(set(names)) + ["zz"]:
            s2s += [(nm, nm), (nm + sc + "0", nm + "::0"), (nm + sc + "1", nm + "::1"), (nm + sc + "-1", nm + "::-1"),
                    (nm + sp + "1", nm + "<<1"), (nm + sn + "1", nm + ">>1")]
        s2s += [("|".join(alphabet[:2]), "|".join(alphabet[:2])), ("[ab].*" + sc + "0", "[ab].*::0"), (alphabet[0].lower() + ".*", alphabet[0].lower() + ".*")]
        s1s = [slice(None), slice(1, None), slice(None, L - 1), [i for i in range(L) if i % 2 == 0], list(range(L))[::-1],
               np.array([i != 1 for i in range(L)]), alphabet[0] + "|" + alphabet[-1]]

        def rows_of(f):
            try:
                sub = f()
                return ("v", [int(v) for v in sub._data["x"]], list(sub._data["name"]))
            except Exception as exc:
                return ("e", type(exc).__name__)
        for s2, s2_default in s2s:
            # single selector against the reference (default flags only: the statement defines the case-insensitive match)
            if cfg.get("regex_flags", _re.IGNORECASE) == _re.IGNORECASE and not TR.kf4_literal_fast_path(names, s2_default):
                exp = oracle(names, {"x": list(range(L)), "v": [i % 3 for i in range(L)]}, s2_default)
                if not (exp[0] == "v" and any(i < 0 or i >= L for i in exp[1])):
                    got = rows_of(lambda: t.rows[s2])
                    counters["configured_single_selectors_compared"] = counters.get("configured_single_selectors_compared", 0) + 1
                    if (exp[0] == "e") != (got[0] == "e") or (exp[0] == "v" and got[1] != exp[1]):
                        violations.append({"what": "C08 table built with %s, index column %s: rows[%r] gives %s, the selector denotes %s" % (cfg, names, s2, got[:2], exp),
                                           "names": names, "selector": s2})
                        return
            for s1 in s1s:
                a = rows_of(lambda: t.rows[s1, s2])
                b = rows_of(lambda: t.rows[s1].rows[s2])
                counters["configured_pairs_compared"] = counters.get("configured_pairs_compared", 0) + 1
                if b[0] == "v" and any(False for _ in ()):
                    pass
                if a != b:
                    # offsets that land outside the sub-table are outside the statement (as in the main enumeration)
                    if (sp in s2 or sn in s2) and "e" in (a[0], b[0]):
                        continue
                    violations.append({"what": "C08 composition law on a table built with %s, index column %s: rows[%s, %r] gives %s but rows[s1].rows[s2] gives %s" % (
                        cfg, names, sel_text(s1), s2, a[:2], b[:2]), "names": names, "selector": "(%s, %r)" % (sel_text(s1), s2)})
                    return
                if a[0] == "v":
                    try:
                        ind = [int(i) for i in np.atleast_1d(t.rows.indices[s1, s2])]
                        msk = [int(i) for i in np.where(t.rows.mask[s1, s2])[0]]
                    except Exception as exc:
                        violations.append({"what": "C08 table built with %s: rows.indices / rows.mask[%s, %r] raised %s although rows[...] returned" % (cfg, sel_text(s1), s2, type(exc).__name__)})
                        return
                    if ind != a[1] or msk != sorted(set(a[1])):
                        violations.append({"what": "C08 table built with %s, index column %s: rows[%s, %r] gives rows %s, rows.indices %s, rows.mask %s" % (
                            cfg, names, sel_text(s1), s2, a[1], ind, msk)})
                        return


def random_selector(rng, names, n):
    x = rng.random()
    distinct = sorted(set(names))
    nm = rng.choice(distinct)
    if x < 0.15:
        return nm + rng.choice(["", "::0", "::-1", "::1"])
    if x < 0.3:
        return rng.choice(["m.*", "d.*::0", ".*q.*", "[md].*::-1", ".*", "zz.*", "M.*::1"])
    if x < 0.45:
        return slice(rng.choice([None, nm]), rng.choice([None, rng.choice(distinct), rng.choice(distinct) + "::-1"]))
    if x < 0.6:
        lo, hi = sorted([rng.choice([0.5, 1.0, 2.5, 0.0]), rng.choice([0.5, 1.0, 2.5, float("inf")])])
        return slice(rng.choice([None, lo]), rng.choice([None, hi]), "v")
    if x < 0.7:
        a = rng.randrange(-n, n)
        return slice(a, rng.choice([None, rng.randrange(-n, n)]), rng.choice([None, 1, 2, 3]))
    if x < 0.8:
        pos = sorted(rng.sample(range(n), rng.randrange(1, min(n, 6) + 1)))
        k = rng.random()
        if k < 0.5:
            return pos
        pos = [p_ - n if rng.random() < 0.5 else p_ for p_ in pos]       # the same rows, some counted from the end
        return pos if k < 0.65 else np.array(pos, dtype=rng.choice([np.int64, np.int64, np.int32, np.intp]))
    if x < 0.9:
        return [rng.random() < 0.4 for _ in range(n)]
    return rng.randrange(-n, n)


def run_shard(spec):
    rng = random.Random("C08:%s:corpus" % spec["seed"])       # same corpus for every hash seed
    counters, digests, samples, violations, known = {}, set(), [], [], []
    fp = hashlib.sha1()
    if spec.get("replay"):
        wit = spec["replay"]
        run_table(wit["names"], ["a", "b", "ab"], counters, digests, violations, known, fp, pairs=True)
        return {"evaluations": 1, "digests": [], "samples": [], "counters": counters, "violations": violations, "known": known}
    # the KF4 witness: 'a::0' on names [a, A, b]
    if kf.is_open("KF4", ID):
        run_table(["a", "A", "b"], ["a", "A", "b"], counters, set(), [], known, hashlib.sha1(), pairs=False, sels=["a::0"])
    for alphabet in (["a", "b", "ab"], ["a", "A", "b"]):
        for L in range(0, spec["maxlen"] + 1):
            for names in itertools.product(alphabet, repeat=L):
                run_table(list(names), alphabet, counters, digests, violations, known, fp, pairs=(L <= spec.get("pairlen", 3)))
                counters["tables"] = counters.get("tables", 0) + 1
                if len(violations) >= 12:
                    break
    counters["exhaustive"] = True
    if not violations:
        configured_tables(rng, spec.get("configured", 150), counters, violations, known)
    pool = ["mq%d" % i for i in range(6)] + ["drift", "dq", "MQ1", "marker", "", "1", "q.1"]
    for i in range(spec["random_tables"]):
        n = rng.randrange(5, 200)
        names = [rng.choice(pool) for _ in range(n)]
        sels = [random_selector(rng, names, n) for _ in range(12)]
        run_table(names, pool[:3], counters, digests, violations, known, fp, pairs=(i % 4 == 0), sels=sels)
        counters["random_tables"] = counters.get("random_tables", 0) + 1
        if len(violations) >= 12:
            break
    samples.append({"table": ["a", "ab", "a", "b"], "selectors": [sel_text(s) for s in selectors(["a", "ab", "a", "b"], ["a", "b", "ab"])[:12]]})
    return {"evaluations": counters.get("single_selectors_compared", 0) + counters.get("selector_pairs_compared", 0),
            "digests": sorted(digests), "samples": samples, "counters": counters, "violations": violations, "known": known,
            "fingerprint": fp.hexdigest()}


def merge(results, tier, seed):
    """Cross-configuration check: the same corpus must give the same outputs under every hash seed."""
    fps = {}
    for spec, res in results:
        fps.setdefault(res.get("fingerprint"), []).append(spec.get("hashseed"))
    out = {"counters": {"seeds_compared": len(results) if len(results) > 1 else 0}, "fingerprints": {k: v for k, v in fps.items()}}
    if len(fps) > 1:
        out["violations"] = [{"what": "C08 selection results depend on PYTHONHASHSEED: output fingerprints %s" % fps}]
    return out


TEXT = ("Exhaustive over the stated small scope (every index column over two 3-name alphabets up to length 4/5 x ~50 "
        "selector forms x every pair: ~1.1 million comparisons quick) plus random larger tables: each selector and "
        "pair is compared with a literal implementation of the documented semantics on rows[...], rows.indices and "
        "rows.mask, the composition law is observed on the real table, and the outputs are fingerprinted and compared "
        "across hash seeds in separate processes."
        ' Fresh selector texts are first used on a sibling table built with other regex flags (process-wide state must not leak between tables).'
        " The warm table's index column is replaced five ways (item, attribute, del+set, pop+set, cell by cell) and every selector compared again; tables built with non-default separators / regex flags obey the composition law and the reference semantics (defect F22).")
NOTE = ("Trusted: vlib/tableref.select as the reading of the documented semantics. KF4 (literal-name fast path for "
        "'name::count' shadows case-insensitive regex matches) is classified by mechanism.")
TECHNIQUE = "runtime monitoring: reference-model oracle per selector and selector pair (exhaustive small scope) + cross-configuration output comparison over PYTHONHASHSEED in separate processes"
