"""C12 — a pickled manager restores to an independent, behaviourally identical copy.

Monitors: round trip pickle.loads(pickle.dumps(manager)) after generated histories; the restored
manager must have the same definitions / index supports / contents and pass verify(); assignments
to one side must leave the other untouched (independence); mirrored follow-ups must keep both
equal to each other and to the pull-model shadow.  Some pickles are additionally restored in a
FRESH interpreter with a different hash seed and must produce the same transcript.
"""
import json
import os
import pickle
import random
import subprocess
import sys
import tempfile

from vlib import containers as C
from vlib import gen, kf, lockstep, mgrmon
from vlib import programs as P
from vlib.driver import digest
from vlib.values import canon

ID = "C12"
LEVEL = "exploration"
DECIDING = ("managers_pickled", "independence_checks", "mirrored_followups", "cross_process_restores")
RULE = ("managers reached by layered assignment histories whose expressions use every node class (binary, unary, "
        "LiteralExpr, builtins with and without parameters, calls with kwargs, nested item/attribute refs, computed "
        "keys) plus linear knobs, over picklable tracing containers; each is pickled and restored in-process, a "
        "sample also in a fresh interpreter with another PYTHONHASHSEED; then 4-10 follow-up assignments "
        "(one-sided for independence, mirrored for equivalence). Non-trivial = >= 3 definitions; distinct = sha1 of "
        "(world, ops).")
ASSUMPTIONS = [
    "FunctionTask actions are closures and not picklable: managers with function tasks are outside the premise",
    "containers are instances of module-level classes (vlib.containers) so that they pickle",
]
TIMEOUT = {"quick": 900, "thorough": 5400}
PROFILE = frozenset(["keys", "builtins", "divmod", "mathfn", "eqne", "litexpr"])


def plan(tier, seed):
    if tier == "quick":
        return [{"mode": "compiled", "hashseed": 0, "managers": 260, "cross": 4},
                {"mode": "compiled", "hashseed": 1, "managers": 260, "cross": 4},
                {"mode": "pure", "hashseed": 2, "managers": 260, "cross": 4},
                {"mode": "pure", "hashseed": 3, "managers": 260, "cross": 4}]
    return [{"mode": "compiled" if i % 2 == 0 else "pure", "hashseed": i % 8, "managers": 1000, "cross": 40}
            for i in range(32)]


def runner_from_manager(mgr, world):
    rn = P.Runner.__new__(P.Runner)
    import xdeps
    rn.xd = xdeps
    rn.world = world
    rn.mgr = mgr
    rn.refs = dict(mgr.containers)
    rn.data = {label: ref._owner for label, ref in mgr.containers.items()}
    rn.named_tasks = {tid: t for tid, t in mgr.tasks.items() if isinstance(tid, str)}
    return rn


def cont(rn):
    return {k: canon(v) for k, v in rn.contents().items()}


def supports(mgr):
    return {n: {str(k): sorted(map(str, v)) for k, v in d.items()} for n, d in mgrmon.index_supports(mgr).items()}


def transcript(rn, ops):
    """Deterministic transcript of follow-up ops on a runner (used across processes)."""
    out = []
    for op in ops:
        try:
            rn.exec_op(op)
            exc = None
        except Exception as e:
            exc = type(e).__name__
        out.append([exc, sorted(cont(rn).items())])
    out.append(["dump", sorted(map(list, rn.mgr.dump()))])
    return out


def child_main():
    """Entry point in the fresh interpreter: restore, run follow-ups, print the transcript."""
    pkl, opsf = sys.argv[2], sys.argv[3]
    with open(pkl, "rb") as fh:
        mgr = pickle.load(fh)
    with open(opsf) as fh:
        spec = json.load(fh)
    rn = runner_from_manager(mgr, spec["world"])
    try:
        mgr.verify()
        v = None
    except Exception as exc:
        v = str(exc)[:200]
    print(json.dumps({"transcript": transcript(rn, spec["ops"]), "verify": v, "hashseed": os.environ.get("PYTHONHASHSEED")}))


def default_container_case(rng, counters, violations):
    """The library's own default container (Manager.ref() without a container: utils.AttrDict),
    accessed by attribute and by item, must survive the round trip like any other container."""
    import xdeps
    m = xdeps.Manager()
    # Manager.ref() and Manager.refattr() (attribute access translated to item access) over the default container
    how_root = rng.choice(["ref", "refattr", "refattr-dict"])
    if how_root == "ref":
        r = m.ref(label="r")
    elif how_root == "refattr":
        r = m.refattr(label="r")
    else:
        r = m.refattr({}, "r")
    # a second default container that is still EMPTY when the manager is pickled (e.g. a results container)
    out = m.refattr(label="out") if how_root.startswith("refattr") else m.ref(label="out")
    names = ["a", "b", "c", "d", "e"]
    log = [["root", how_root]]

    def step(root, kind, nm, val):
        if kind == "attr":
            setattr(root, nm, val(root))
        else:
            root[nm] = val(root)

    def state(root):
        d = root._owner
        return sorted((k, canon(v)) for k, v in d.items()), sorted((k, canon(getattr(d, k, d[k]))) for k in d)

    ops = []
    for i, nm in enumerate(names):
        kind = rng.choice(["attr", "item"])
        if i < 2:
            v = rng.choice([1.0, 2.5, -3.0])
            ops.append((kind, nm, lambda root, v=v: v, "%s" % v))
        else:
            a, b = rng.sample(names[:i], 2)
            how = rng.choice(["aa", "ii", "ai"])
            ops.append((kind, nm, lambda root, a=a, b=b, how=how:
                        (getattr(root, a) if how[0] == "a" else root[a]) * 2 + (getattr(root, b) if how[1] == "a" else root[b]),
                        "%s*2+%s (%s)" % (a, b, how)))
    for kind, nm, val, txt in ops:
        step(r, kind, nm, val)
        log.append([kind, nm, txt])
    try:
        m2 = pickle.loads(pickle.dumps(m))
    except Exception as exc:
        violations.append({"what": "C12 default container: pickle round trip raised %s" % type(exc).__name__, "ops": log})
        return
    r2 = m2.containers["r"]
    counters["default_container_cases"] = counters.get("default_container_cases", 0) + 1
    counters["default_container_" + how_root] = counters.get("default_container_" + how_root, 0) + 1
    if type(r2) is not type(r):
        violations.append({"what": "C12 default container: the container reference is a %s, restored as a %s" % (type(r).__name__, type(r2).__name__), "ops": log})
        return
    if state(r) != state(r2):
        violations.append({"what": "C12 default container: contents differ right after restore", "ops": log})
        return
    # definitions made in the container that was empty at pickle time, attribute-style and item-style
    out2 = m2.containers["out"]
    for j, (kind, nm) in enumerate([(rng.choice(["attr", "item"]), "y"), (rng.choice(["attr", "item"]), "z")]):
        for root, o in ((r, out), (r2, out2)):
            src = getattr(root, names[j]) if rng.random() < 2 else None
            if kind == "attr":
                setattr(o, nm, src * 2 + 1)
            else:
                o[nm] = src * 2 + 1
        log.append(["out", kind, nm])
        sa, sb = state(out), state(out2)
        counters["mirrored_followups"] = counters.get("mirrored_followups", 0) + 1
        if sa != sb or sb[0] != sb[1]:
            violations.append({"what": "C12 default container that was EMPTY when pickled: after %s-assignment of %s the copy holds items %s / attributes %s, "
                                       "the original %s" % (kind, nm, sb[0], sb[1], sa[0]), "ops": log})
            return
    for j in range(rng.randrange(3, 7)):
        kind, nm, v = rng.choice(["attr", "item"]), rng.choice(names[:2]), rng.choice([0.5, 4.0, -1.5, 7.0])
        for root in (r, r2):
            step(root, kind, nm, lambda root, v=v: v)
        log.append([kind, nm, v])
        sa, sb = (state(r), state(out)), (state(r2), state(out2))
        counters["mirrored_followups"] = counters.get("mirrored_followups", 0) + 1
        if sa != sb:
            violations.append({"what": "C12 default containers after restore and %s-assignment of %s: original %s, copy %s" % (kind, nm, sa, sb), "ops": log})
            return
        sa, sb = state(r), state(r2)
        if sa != sb or sb[0] != sb[1]:
            violations.append({"what": "C12 default container (xdeps.utils.AttrDict): after restore and %s-assignment of %s the copy holds "
                                       "items %s / attributes %s, the original %s" % (kind, nm, sb[0], sb[1], sa[0]), "ops": log})
            return


class ZooFn:
    def lin(self, x, y=1, *, k=2):
        return x * k + y


def literal_zoo_case(rng, counters, violations):
    """Literal operands of every kind (Python bool/int/float/complex, numpy scalars of several dtypes, big
    ints, -0.0) in every node class: the restored expressions must have the same typed structure and the two
    managers the same contents (by value AND type) under follow-up assignments."""
    import numpy as np
    import xdeps
    import xdeps.refs as R
    from checks import c11
    lits = [True, 3, 2 ** 62, 2.5, -0.0, 0.0, complex(1, -2), np.float64(2.5), np.float32(0.1), np.int64(2 ** 62),
            np.int32(-4), np.float64(0.0), np.bool_(True), np.int64(0)]
    m = xdeps.Manager()
    d = {"a": 4.0, "n": 3, "b": -1.5}
    r = m.ref(d, "r")
    f = m.ref(ZooFn(), "f")
    rng.shuffle(lits)
    made = []
    for i, lit in enumerate(lits):
        forms = [("mul", lambda: r["a"] * lit), ("rtruediv", lambda: lit / r["a"]), ("truediv", lambda: r["a"] / lit),
                 ("add-n", lambda: r["n"] + lit), ("mul-n", lambda: r["n"] * lit), ("call-arg", lambda: f.lin(r["a"], lit)),
                 ("call-kw", lambda: f.lin(r["b"], k=lit)), ("floordiv", lambda: r["n"] // lit), ("pow", lambda: r["a"] ** lit),
                 ("nested", lambda: (r["a"] + lit) * (lit - r["b"]))]
        name, mk = forms[(i + rng.randrange(len(forms))) % len(forms)]
        key = "x%d" % i
        try:
            import warnings
            with warnings.catch_warnings():
                warnings.simplefilter("ignore")
                r[key] = mk()
            made.append((key, name, canon(lit)))
        except Exception:
            continue        # Python itself rejects this literal in this position
    counters["literal_zoo_cases"] = counters.get("literal_zoo_cases", 0) + 1
    counters["literal_zoo_definitions"] = counters.get("literal_zoo_definitions", 0) + len(made)
    wit = {"zoo": made}
    try:
        m2 = pickle.loads(pickle.dumps(m))
    except Exception as exc:
        violations.append(dict(wit, what="C12 literal zoo: pickle round trip raised %s: %s" % (type(exc).__name__, str(exc)[:200])))
        return
    d2 = m2.containers["r"]._owner
    for tid, t in m.tasks.items():
        t2 = m2.tasks.get(tid)
        if t2 is None or c11.norm(t.expr, R) != c11.norm(t2.expr, R):
            violations.append(dict(wit, what="C12 literal zoo: definition of %s restored with another typed structure: %s vs %s" % (
                tid, c11.norm(t.expr, R), None if t2 is None else c11.norm(t2.expr, R))))
            return
    r2 = m2.containers["r"]
    import warnings
    for a, n, b in [(4.0, 3, -1.5), (0.0, 0, 2.0), (1e10, 5, 0.25), (-3.0, 2 ** 40, 1.0), (2.0, -1, 0.0)]:
        for root in (r, r2):
            with warnings.catch_warnings():
                warnings.simplefilter("ignore")
                for k, v in (("a", a), ("n", n), ("b", b)):
                    try:
                        root[k] = v
                    except Exception:
                        pass
        counters["mirrored_followups"] = counters.get("mirrored_followups", 0) + 1
        ca = {k: canon(v) for k, v in d.items()}
        cb = {k: canon(v) for k, v in d2.items()}
        if ca != cb:
            diff = [(k, ca.get(k), cb.get(k)) for k in ca if ca.get(k) != cb.get(k)]
            violations.append(dict(wit, what="C12 literal zoo: after a=%r n=%r b=%r original and restored differ: %s" % (a, n, b, diff[:3])))
            return


def mode_case(rng, counters, violations):
    """The manager's MODE travels with it: a manager pickled while its tree is frozen (or frozen and released again)
    restores to a copy that accepts and refuses exactly the assignments the original accepts and refuses, with the same
    contents after each of them."""
    import xdeps
    m = xdeps.Manager()
    d = {"a": 1.0, "b": 2.0, "k": [1.0, 2.0, 3.0], "c": 0.0, "e": 0.0}
    r = m.ref(d, "r")
    r["c"] = r["a"] * rng.choice([2, 3]) + r["b"]
    r["e"] = r["c"] - r["k"][rng.randrange(3)]
    mode = rng.choice(["frozen", "frozen", "released", "never"])
    if mode in ("frozen", "released"):
        m.freeze_tree()
    if mode == "released":
        m.unfreeze_tree()
    try:
        m2 = pickle.loads(pickle.dumps(m))
    except Exception as exc:
        violations.append({"what": "C12 pickling a manager (%s) raised %s: %s" % (mode, type(exc).__name__, exc)})
        return
    r2 = m2.containers["r"]
    counters["mode_cases_" + mode] = counters.get("mode_cases_" + mode, 0) + 1
    log = [["mode", mode]]
    fups = []
    for _ in range(rng.randrange(4, 9)):
        kind = rng.choice(["val", "val", "expr_new", "expr_redef", "val_over_expr", "iop", "unfreeze", "freeze"])
        fups.append((kind, rng.choice(["a", "b"]), rng.choice([0.5, 4.0, -1.5, 7.0]), rng.choice(["g", "h"])))
    for kind, nm, v, tgt in fups:
        out = []
        for mm, rr in ((m, r), (m2, r2)):
            try:
                if kind == "val":
                    rr[nm] = v
                elif kind == "expr_new":
                    rr[tgt] = rr["a"] + rr["b"] * v
                elif kind == "expr_redef":
                    rr["c"] = rr["b"] * v
                elif kind == "val_over_expr":
                    rr["e"] = v
                elif kind == "iop":
                    rr[nm] += v
                elif kind == "unfreeze":
                    mm.unfreeze_tree()
                else:
                    mm.freeze_tree()
                res = "accepted"
            except ValueError:
                res = "ValueError"
            except Exception as exc:
                res = type(exc).__name__
            out.append((res, sorted((k, canon(x)) for k, x in rr._owner.items()), sorted(map(str, mm.dump()))))
        log.append([kind, nm, v, tgt, out[0][0], out[1][0]])
        counters["mirrored_followups"] = counters.get("mirrored_followups", 0) + 1
        counters["mode_followups_" + out[0][0]] = counters.get("mode_followups_" + out[0][0], 0) + 1
        if out[0] != out[1]:
            what = "outcome" if out[0][0] != out[1][0] else ("contents" if out[0][1] != out[1][1] else "definitions")
            violations.append({"what": "C12 manager pickled in mode '%s': follow-up %s -> original %s, restored copy %s; %s differ" % (
                mode, kind, out[0][0], out[1][0], what), "ops": log})
            return


def run_shard(spec):
    rng = random.Random("C12:%s:%s" % (spec["seed"], spec["shard"]))
    mgrmon.install_run_events()
    counters, digests, samples, violations, known = {}, set(), [], [], []
    W = {"define": 0.55, "leafval": 0.18, "val": 0.07, "iop": 0.1, "unreg": 0.03, "ftask": 0.0, "knob": 0.05,
         "replace": 0.02, "unreg_task": 0.0}
    n_cross = 0
    for n in range(60):
        default_container_case(rng, counters, violations)
        if violations:
            break
    for n in range(40):
        if violations:
            break
        literal_zoo_case(rng, counters, violations)
    for n in range(60):
        if violations:
            break
        mode_case(rng, counters, violations)
    for n in range(spec["managers"] if not spec.get("replay") else 40):
        hg = gen.HistoryGen(rng, layered=True, depth=rng.choice([2, 3, 4]), profile=PROFILE, weights=W)
        ls = lockstep.LockStep(hg.world)
        bad = False
        for _ in range(rng.randrange(6, 22)):
            op, exp = hg.next_op()
            if op is None:
                break
            f = ls.step(op, exp)
            if f:
                bad = True
                if not (f["kind"] == "mismatch" and kf.is_open("KF1", ID) and mgrmon.shadow_structural_cycle(hg.shadow, ls.runner)):
                    violations.append({"what": "C12 history (C01 oracle) failed: %s" % (f,), "world": hg.world, "ops": list(ls.ops)})
                break
        if bad:
            continue
        real = ls.runner
        wit = {"world": hg.world, "ops": list(ls.ops)}
        try:
            blob = pickle.dumps(real.mgr)
            m2 = pickle.loads(blob)
        except Exception as exc:
            violations.append(dict(wit, what="C12 pickle round trip raised %s: %s" % (type(exc).__name__, str(exc)[:200])))
            if len(violations) >= 8:
                break
            continue
        counters["managers_pickled"] = counters.get("managers_pickled", 0) + 1
        counters["pickle_bytes"] = counters.get("pickle_bytes", 0) + len(blob)
        twin = runner_from_manager(m2, hg.world)
        problems = []
        if any(twin.data[k] is real.data[k] for k in real.data):
            problems.append("restored manager shares a container object with the original")
        if sorted(map(tuple, m2.dump())) != sorted(map(tuple, real.mgr.dump())):
            problems.append("definitions differ after restore")
        if sorted(map(str, m2.tasks)) != sorted(map(str, real.mgr.tasks)):
            problems.append("task ids differ after restore")
        if supports(m2) != supports(real.mgr):
            problems.append("index supports differ after restore")
        import xdeps.refs as _R
        from checks import c11 as _c11
        for tid, t in real.mgr.tasks.items():
            t2 = m2.tasks.get(tid)
            if hasattr(t, "expr") and t2 is not None and _c11.norm(t.expr, _R) != _c11.norm(t2.expr, _R):
                problems.append("definition of %s restored with another typed structure" % (tid,))
                break
        if cont(twin) != cont(real):
            problems.append("contents differ after restore")
        for who, m in (("original", real.mgr), ("restored", m2)):
            try:
                m.verify()
            except Exception as exc:
                problems.append("verify() of the %s raised: %s" % (who, str(exc)[:150]))
        bad_idx = mgrmon.index_violations(m2)
        if bad_idx:
            problems.append("restored index supports inconsistent: %s" % bad_idx[:2])
        if problems:
            violations.append(dict(wit, what="C12 after restore: " + "; ".join(problems)))
            if len(violations) >= 8:
                break
            continue
        # cross-process restore (fresh interpreter, other hash seed) on a sample
        fups = []
        hg.w.update({"knob": 0.0, "unreg_task": 0.0, "ftask": 0.0})     # follow-ups: assignments only
        for _ in range(rng.randrange(4, 11)):
            op, exp = hg.next_op()
            if op is not None and op[0] in ("set", "iop", "unreg", "replace"):
                fups.append((op, exp))
        if n_cross < spec.get("cross", 0) and fups:
            n_cross += 1
            with tempfile.TemporaryDirectory(dir=os.environ.get("XDEPS_VERIF_OVERLAY")) as td:
                pk, of = os.path.join(td, "m.pkl"), os.path.join(td, "ops.json")
                with open(pk, "wb") as fh:
                    fh.write(blob)
                with open(of, "w") as fh:
                    json.dump({"world": hg.world, "ops": [o for o, _ in fups]}, fh)
                env = dict(os.environ, PYTHONHASHSEED=str((int(os.environ.get("PYTHONHASHSEED", "0")) + 17) % 1000))
                try:
                    p = subprocess.run([sys.executable, "-c", "from checks import c12; c12.child_main()", "child", pk, of],
                                       env=env, capture_output=True, text=True, timeout=300, cwd=os.path.dirname(os.path.dirname(os.path.abspath(__file__))))
                    child = json.loads(p.stdout.strip().splitlines()[-1])
                except Exception as exc:
                    violations.append(dict(wit, what="C12 restore in a fresh interpreter failed: %s %s" % (
                        type(exc).__name__, (p.stderr[-400:] if "p" in dir() else ""))))
                    continue
            m3 = pickle.loads(blob)
            local = transcript(runner_from_manager(m3, hg.world), [o for o, _ in fups])
            counters["cross_process_restores"] = counters.get("cross_process_restores", 0) + 1
            if child["verify"]:
                violations.append(dict(wit, what="C12 verify() failed in the fresh interpreter: %s" % child["verify"]))
            if json.loads(json.dumps(local)) != child["transcript"]:
                k = next((i for i, (a, b) in enumerate(zip(local, child["transcript"])) if json.loads(json.dumps(a)) != b), None)
                violations.append(dict(wit, what="C12 transcript in a fresh interpreter (hash seed %s) differs at follow-up %s" % (
                    child["hashseed"], k), followups=[o for o, _ in fups]))
        # independence + mirrored follow-ups
        for j, (op, exp) in enumerate(fups):
            side = j % 3
            if side < 2:
                a, b = (real, twin) if side == 0 else (twin, real)
                before = cont(b)
                del C.EVENTS[:]
                try:
                    a.exec_op(op)
                    ea = None
                except Exception as e:
                    ea = type(e).__name__
                counters["independence_checks"] = counters.get("independence_checks", 0) + 1
                if cont(b) != before:
                    diff = [(k, before.get(k), v) for k, v in cont(b).items() if before.get(k) != v]
                    violations.append(dict(wit, what="C12 an assignment to the %s changed the %s: %s" % (
                        "original" if side == 0 else "restored copy", "restored copy" if side == 0 else "original", diff[:3]), followup=op))
                    break
                try:
                    b.exec_op(op)
                    eb = None
                except Exception as e:
                    eb = type(e).__name__
                if ea != eb:
                    violations.append(dict(wit, what="C12 follow-up %s: one side %s, other side %s" % (op[0], ea, eb), followup=op))
                    break
            else:
                for rn in (real, twin):
                    try:
                        rn.exec_op(op)
                    except Exception as e:
                        violations.append(dict(wit, what="C12 mirrored follow-up raised %s" % type(e).__name__, followup=op))
                        break
            counters["mirrored_followups"] = counters.get("mirrored_followups", 0) + 1
            # the indices of the two managers keep answering alike and stay consistent with the tasks
            later = []
            if supports(m2) != supports(real.mgr):
                sa, sb = supports(real.mgr), supports(m2)
                later.append("index supports differ (original vs restored): %s" % (
                    [(k, sa.get(k), sb.get(k)) for k in set(sa) | set(sb) if sa.get(k) != sb.get(k)][:2],))
            bad_idx = mgrmon.index_violations(m2)
            if bad_idx:
                later.append("restored index supports inconsistent: %s" % bad_idx[:2])
            for who, m in (("original", real.mgr), ("restored", m2)):
                try:
                    m.verify()
                except Exception as exc:
                    later.append("verify() of the %s raised: %s" % (who, str(exc)[:150]))
            counters["index_checks_after_followups"] = counters.get("index_checks_after_followups", 0) + 1
            if later:
                violations.append(dict(wit, what="C12 after follow-up %s: %s" % (op[0], "; ".join(later[:3])), followup=op,
                                       followups=[o for o, _ in fups[:j + 1]]))
                break
            ca, cb = cont(real), cont(twin)
            want = {k: canon(v) for k, v in exp.items()}
            if ca != cb or ca != want:
                if kf.is_open("KF1", ID) and mgrmon.shadow_structural_cycle(hg.shadow, real):
                    known.append(kf.known("KF1"))
                else:
                    diff = [(k, ca.get(k), cb.get(k), want.get(k)) for k in want if not (ca.get(k) == cb.get(k) == want.get(k))]
                    violations.append(dict(wit, what="C12 after follow-up %s (original, restored, shadow) differ: %s" % (op[0], diff[:3]), followup=op))
                break
        ndefs = len(hg.shadow.defs)
        if ndefs >= 3:
            digests.add(digest([hg.world, ls.ops]))
        if len(samples) < 2 and ndefs >= 4:
            samples.append({"dump": real.mgr.dump()[:4], "pickle_bytes": len(blob), "followups": [o for o, _ in fups][:3]})
        if len(violations) >= 8:
            break
    return {"evaluations": counters.get("managers_pickled", 0), "digests": sorted(digests), "samples": samples,
            "counters": counters, "violations": violations[:12], "known": known}


TEXT = ("Held on every manager observed: ~1 000 (quick) / ~30 000 (thorough) managers pickled and restored in-process "
        "(definitions, index supports, verify(), contents, object independence), a sample restored in a fresh "
        "interpreter under another hash seed with identical transcripts, followed by one-sided (independence) and "
        "mirrored (equivalence, shadow as referee) follow-up assignments. Exploration over sampled histories."
        ' Index supports, index/task consistency and verify() of both managers are re-checked after every mirrored follow-up; a literal zoo (Python and numpy literals of every kind in every node class) is compared by typed structure and by contents.'
        ' Managers pickled frozen / frozen-and-released / never frozen: refused and accepted follow-ups mirrored by outcome, contents and definitions.')
NOTE = ("Trusted: the tracing containers' own pickling; the shadow as referee; the transcript comparison across "
        "processes.")
TECHNIQUE = "runtime monitoring: pickle round-trip twin (in-process and in a fresh interpreter under another hash seed) compared by state, independence and mirrored follow-up assignments"
