"""C16 — Newton step is the least-squares solution; scalings and Jacobians consistent.

Monitors: a contract on the real SVD.lstsq (class-level wrapper: EVERY call made by any optimizer
workload of C09/C10/C15/C16 is compared with an independently recomputed truncated-SVD
minimum-norm solution) plus direct cases; algebraic identities of the knob/x and native/scaled
mappings; the Jacobian of every merit-function view against central differences of that same
view; first Jacobian step and solve() on consistent well-conditioned linear problems.
"""
import itertools
import math
import random

import numpy as np

from vlib import optmon
from vlib.driver import digest

ID = "C16"
LEVEL = "exploration"
DECIDING = ("lstsq_direct_cases", "lstsq_calls_checked", "linear_problems", "view_jacobians_compared", "mapping_identities")
RULE = ("matrices of every shape 1..6 x 1..6 (random, rank-deficient, rows/columns scaled over 12 decades) with random "
        "right-hand sides over a grid of rcond and sing_val_cutoff; consistent linear problems with condition number "
        "<= 100 inside wide limits, positive weights, Broyden on/off; every (return_scalar, rescale_x) view of linear and "
        "mildly quadratic merit functions. Non-trivial = matrix of rank >= 1; distinct = sha1 of the case.")
ASSUMPTIONS = [
    "lstsq tolerance = 1e3 * eps * cond(kept) * (|x| + |b|/s_min); cases with a singular value within 1e-9 relative of the rcond threshold are skipped",
    "first-step and Jacobian tolerances follow the forward-difference error model (h*|f''| + eps*|f|/h) with a wide margin: a sign / transposition / scaling slip produces O(1) errors",
]
TIMEOUT = {"quick": 900, "thorough": 5400}


def plan(tier, seed):
    if tier == "quick":
        return [{"mode": "pure", "hashseed": h, "matrices": 5000, "problems": 200, "views": 120} for h in (0, 1, 2, 3)]
    return [{"mode": "pure", "hashseed": i % 8, "matrices": 60000, "problems": 3000, "views": 1500} for i in range(16)]


def gen_matrix(rng):
    m, n = rng.randint(1, 6), rng.randint(1, 6)
    A = np.array([[rng.uniform(-2, 2) for _ in range(n)] for _ in range(m)])
    kind = rng.choice(["plain", "plain", "rankdef", "scaled-rows", "scaled-cols", "zero", "ints", "scaled-all", "scaled-all-rankdef"])
    if kind == "rankdef" and min(m, n) >= 2:
        if rng.random() < 0.5:
            A[:, -1] = A[:, 0] * rng.uniform(-2, 2)
        else:
            A[-1, :] = A[0, :] * rng.uniform(-2, 2)
    elif kind == "scaled-rows":
        A = A * np.array([10.0 ** rng.randint(-6, 6) for _ in range(m)])[:, None]
    elif kind == "scaled-cols":
        A = A * np.array([10.0 ** rng.randint(-6, 6) for _ in range(n)])[None, :]
    elif kind in ("scaled-all", "scaled-all-rankdef"):
        # the whole system in very small or very large units: which singular values are "kept" is relative to the largest
        if kind.endswith("rankdef") and min(m, n) >= 2:
            A[:, -1] = A[:, 0] * rng.uniform(-2, 2)
        A = A * 10.0 ** rng.choice([-30, -24, -20, -18, -17, -16, -15, -12, 12, 16, 20, 30])
    elif kind == "zero":
        A = A * 0.0
    elif kind == "ints":
        A = np.round(A)
    return A, kind


def lstsq_direct(rng, nmat, counters, digests, violations, samples):
    from xdeps.optimize.matrixutils import SVD
    for _ in range(nmat):
        A, kind = gen_matrix(rng)
        b = np.array([rng.uniform(-3, 3) for _ in range(A.shape[0])])
        rc0 = rng.choice([1e-14, 1e-14, 1e-10, 1e-3, 0.3])
        co0 = rng.choice([None, None, 1, 2, 3])
        svd = SVD(A, rcond=rc0, sing_val_cutoff=co0)
        for rc, co in ((None, None), (rng.choice([1e-12, 1e-6, 1e-2, 0.5]), None), (None, rng.choice([1, 2, 4])),
                       (rng.choice([1e-8, 0.1]), rng.choice([1, 3]))):
            before = len(optmon.LSTSQ["violations"])
            x = svd.lstsq(b, rcond=rc, sing_val_cutoff=co)      # goes through the installed contract
            counters["lstsq_direct_cases"] = counters.get("lstsq_direct_cases", 0) + 1
            if len(optmon.LSTSQ["violations"]) > before:
                v = optmon.LSTSQ["violations"].pop()
                violations.append({"what": "C16 SVD.lstsq (%s matrix %dx%d, rcond %s, cutoff %s): %s" % (kind, A.shape[0], A.shape[1], rc, co, v["what"]),
                                   "lstsq": v})
                continue
            # cross-check with numpy's pseudo-inverse when only rcond is active
            eff_rc = rc0 if rc is None else rc
            eff_co = co0 if co is None else co
            if eff_co is None and np.any(A):
                s = np.linalg.svd(A, compute_uv=False)
                if not any(abs(v - eff_rc * s[0]) <= 1e-9 * s[0] for v in s) and s[min(len(s) - 1, np.sum(s >= eff_rc * s[0]) - 1)] > 0:
                    ref = np.linalg.pinv(A, rcond=eff_rc) @ b
                    kept = s[s >= eff_rc * s[0]]
                    kept = kept[kept > 0]
                    if len(kept):
                        tol = 1e4 * np.finfo(float).eps * (kept[0] / kept[-1]) * (np.linalg.norm(ref) + np.linalg.norm(b) / kept[-1])
                        counters["pinv_cross_checks"] = counters.get("pinv_cross_checks", 0) + 1
                        if not np.linalg.norm(np.asarray(x) - ref) <= tol:
                            violations.append({"what": "C16 SVD.lstsq differs from numpy.linalg.pinv: %s vs %s" % (x, ref),
                                               "matrix": A.tolist(), "b": b.tolist(), "rcond": eff_rc})
            if np.linalg.matrix_rank(A) >= 1:
                digests.add(digest([A.tolist(), b.tolist(), rc, co, rc0, co0]))
        if len(samples) < 1:
            samples.append({"matrix": A.tolist(), "b": b.tolist(), "kind": kind})
        if len(violations) >= 8:
            return


def gen_linear(rng):
    """Consistent linear problem with cond(A) <= 100 (in x units, i.e. including the knob weights)."""
    for _ in range(200):
        n = rng.randint(1, 4)
        m = rng.randint(1, 5)
        A = np.array([[rng.uniform(-2, 2) for _ in range(n)] for _ in range(m)])
        wv = [rng.choice([1.0, 1.0, 0.5, 2.0, 4.0]) for _ in range(n)]
        Ax = A * np.array(wv)[None, :]
        s = np.linalg.svd(Ax, compute_uv=False)
        if s[-1] > 0 and s[0] / s[-1] <= 100 and len(s) == min(m, n):
            break
    xs = [rng.uniform(-3, 3) for _ in range(n)]
    spec = {"n": n, "m": m, "kind": "lin", "A": A.tolist(), "shift": [2.0] * m,
            "tars": [float(v) for v in A @ np.array(xs)], "x0": [rng.uniform(-1, 1) for _ in range(n)],
            "limits": [(-rng.uniform(50, 500), rng.uniform(50, 5000)) if rng.random() < 0.7 else None for _ in range(n)],
            "max_step": [None] * n, "wv": wv, "wt": [rng.choice([1.0, 1.0, 3.0, 0.2]) for _ in range(m)],
            "tol": [1e-6] * m, "dis_v": [False] * n, "dis_t": [False] * m, "n_steps_max": 10,
            "broyden": rng.choice([False, True, 2]), "step": rng.choice([1e-7, 1e-6, 1e-8])}
    return spec


def linear_problems(rng, nprob, counters, digests, violations, samples):
    for _ in range(nprob):
        spec = gen_linear(rng)
        wit = {"spec": spec}
        counters["linear_problems"] = counters.get("linear_problems", 0) + 1
        scale = 1.0 + max(abs(t) for t in spec["tars"])
        # (1) the first Jacobian step lands on the solution
        S = optmon.Setup(spec)
        try:
            S.opt.step(1, take_best=False)
            res = np.abs(S.residuals())
            if not np.all(res <= 1e-4 * scale):
                violations.append(dict(wit, what="C16 first Jacobian step on a consistent linear problem (cond <= 100) leaves residuals %s (scale %.3g)" % (res.tolist(), scale)))
        except Exception as exc:
            violations.append(dict(wit, what="C16 first Jacobian step raised %s: %s" % (type(exc).__name__, str(exc)[:120])))
        # (2) solve() succeeds, with or without Broyden updates
        for broyden in (False, spec["broyden"] or True):
            S = optmon.Setup(spec)
            try:
                S.opt.solve(broyden=broyden)
                res = np.abs(S.residuals())
                if not np.all(res < 1e-6):
                    violations.append(dict(wit, what="C16 solve(broyden=%s) returned with residuals %s" % (broyden, res.tolist())))
            except Exception as exc:
                violations.append(dict(wit, what="C16 solve(broyden=%s) failed on a consistent well-conditioned linear problem: %s: %s" % (
                    broyden, type(exc).__name__, str(exc)[:100])))
        digests.add(digest(spec))
        if len(violations) >= 8:
            return


def views(rng, nview, counters, digests, violations, samples):
    for _ in range(nview):
        spec = optmon.gen_problem(rng, families=("lin", "quad"))
        n = spec["n"]
        spec["limits"] = [(-rng.uniform(2, 20), rng.uniform(2, 40)) for _ in range(n)]   # finite, asymmetric
        if rng.random() < 0.3:
            spec["limits"] = [(-rng.randrange(2, 20), rng.randrange(2, 40)) for _ in range(n)]   # written as plain integers
        spec["wv"] = [rng.choice([1.0, 0.5, 3.0, 10.0]) for _ in range(n)]
        spec["x0"] = [rng.uniform(-1, 1) for _ in range(n)]
        spec["step"] = 1e-7
        # half of the problems: other entry points of the same Optimize object are used first (their own business if they
        # fail), with tolerances wide enough that the views are then examined at points where every target is met
        pre = rng.choice([None, None, None, ["run_simplex"], ["solve"], ["run_simplex", "solve"], ["run_bfgs"], ["step", "run_simplex"],
                          ["run_l_bfgs_b"], ["run_ls_trf"]])
        if pre is not None:
            spec["tol"] = [rng.choice([1e-2, 0.5, 5.0])] * spec["m"]
        spec["pre"] = pre
        S = optmon.Setup(spec)
        base_knobs = list(spec["x0"])
        for name in pre or []:
            try:
                if name == "solve":
                    S.opt.solve()
                elif name == "step":
                    S.opt.step(1)
                else:
                    getattr(S.opt, name)(n_steps=3)
            except Exception:
                counters["prior_calls_raised"] = counters.get("prior_calls_raised", 0) + 1
        if pre is not None:
            counters["views_after_other_entry_points"] = counters.get("views_after_other_entry_points", 0) + 1
            cur = [float(v) for v in S.knobs()]
            if all(lo < c < hi for c, (lo, hi) in zip(cur, spec["limits"])):
                base_knobs = cur
            if np.all(np.abs(S.residuals(base_knobs)) < np.array(spec["tol"])):
                counters["views_examined_where_all_targets_are_met"] = counters.get("views_examined_where_all_targets_are_met", 0) + 1
        err = S.opt._err
        wit = {"spec": spec}
        # ---- mapping identities --------------------------------------------------------------
        k = np.array([rng.uniform(-5, 5) for _ in range(n)])
        x = np.array([rng.uniform(-5, 5) for _ in range(n)])
        counters["mapping_identities"] = counters.get("mapping_identities", 0) + 4
        k2 = err._x_to_knobs(err._knobs_to_x(k))
        x2 = err._knobs_to_x(err._x_to_knobs(x))
        if not (np.allclose(k2, k, rtol=4e-16, atol=0) and np.allclose(x2, x, rtol=4e-16, atol=0)):
            violations.append(dict(wit, what="C16 knob weights are not inverses: knobs %s -> %s, x %s -> %s" % (k, k2, x, x2)))
        # the x limits are the knob limits divided by the weights (independent of how the limits were written)
        want_lims = np.array(spec["limits"], dtype=float) / np.array(spec["wv"], dtype=float)[:, None]
        got_lims = np.array(err._get_x_limits(), dtype=float)
        counters["x_limits_compared"] = counters.get("x_limits_compared", 0) + 1
        if got_lims.shape != want_lims.shape or not np.allclose(got_lims, want_lims, rtol=4e-16, atol=0):
            violations.append(dict(wit, what="C16 x limits %s, expected knob limits / weight = %s" % (got_lims.tolist(), want_lims.tolist())))
            continue
        want_x = k / np.array(spec["wv"])
        if not np.allclose(err._knobs_to_x(k), want_x, rtol=4e-16, atol=0):
            violations.append(dict(wit, what="C16 _knobs_to_x(%s) = %s, expected knob/weight = %s" % (k, err._knobs_to_x(k), want_x)))
        for rs, rx in itertools.product((False, True), (None, (0.0, 1.0), (-1.0, 1.0), (2.0, 7.0))):
            view = S.opt.get_merit_function(return_scalar=rs, rescale_x=rx, check_limits=False)
            # (not view.get_x(): the finite-difference probes of the previous view leave the knobs displaced)
            xn0 = np.array(err._knobs_to_x(list(base_knobs)), dtype=float)
            xv = np.array(view._scaled_from_native(xn0), dtype=float) if rx is not None else xn0
            where = rng.choice(["interior", "interior", "upper", "lower", "mixed"])
            if where != "interior":
                # next to the box edges (where bounded optimizers evaluate): every knob closer to one of its
                # limits than one finite-difference step, but strictly inside (exactly ON a limit the
                # knob <-> x rounding may land outside and the merit function's own limit check raises)
                lims_n = np.array(err._get_x_limits(), dtype=float)
                steps_n = np.array(err._knobs_to_x(err.steps_for_jacobian), dtype=float)
                pick = {"upper": [1] * n, "lower": [0] * n, "mixed": [rng.randrange(2) for _ in range(n)]}[where]
                xn = np.array([lims_n[i, 1] - 0.3 * steps_n[i] if pick[i] else lims_n[i, 0] + 0.3 * steps_n[i] for i in range(n)])
                xv = np.array(view._scaled_from_native(xn), dtype=float) if rx is not None else xn
                counters["view_jacobians_next_to_limits"] = counters.get("view_jacobians_next_to_limits", 0) + 1
            if rx is not None:
                nat = view._scaled_to_native(xv)
                back = view._scaled_from_native(nat)
                nat2 = view._scaled_to_native(view._scaled_from_native(nat))
                if not (np.allclose(back, xv, rtol=1e-12, atol=1e-12) and np.allclose(nat2, nat, rtol=1e-12, atol=1e-12)):
                    violations.append(dict(wit, what="C16 rescale_x=%s mapping is not its own inverse: %s -> %s -> %s" % (rx, xv, nat, back)))
                lims = err._get_x_limits()
                lo = view._scaled_to_native(np.full(n, rx[0]))
                hi = view._scaled_to_native(np.full(n, rx[1]))
                if not (np.allclose(lo, lims[:, 0], rtol=1e-12, atol=1e-12) and np.allclose(hi, lims[:, 1], rtol=1e-12, atol=1e-12)):
                    violations.append(dict(wit, what="C16 rescale_x=%s does not map the interval ends to the x limits: %s/%s vs %s" % (rx, lo, hi, lims.tolist())))
            # ---- the view's PUBLIC accessors: get_x() at knob values written by the user, against knob / weight mapped
            #      affinely from the x limits onto rescale_x (computed here); set_x(get_x()) puts the same knobs back;
            #      get_x_limits() is rescale_x for every knob, the x limits otherwise
            kv = np.array([rng.uniform(lo + 0.05 * (hi - lo), hi - 0.05 * (hi - lo)) for lo, hi in spec["limits"]], dtype=float)
            for nm_, v_ in zip(S.names, kv):
                dict.__setitem__(S.cont, nm_, float(v_))
            wv_ = np.array(spec["wv"], dtype=float)
            xl_ = np.array(spec["limits"], dtype=float) / wv_[:, None]
            want = kv / wv_ if rx is None else rx[0] + (kv / wv_ - xl_[:, 0]) * (rx[1] - rx[0]) / (xl_[:, 1] - xl_[:, 0])
            counters["view_accessor_round_trips"] = counters.get("view_accessor_round_trips", 0) + 1
            try:
                gx = np.array(view.get_x(), dtype=float)
                gl = np.array(view.get_x_limits(), dtype=float)
                for nm_ in S.names:
                    dict.__setitem__(S.cont, nm_, 0.0)
                view.set_x(gx)
                back_k = np.array([float(S.cont[nm_]) for nm_ in S.names])
            except Exception as exc:
                violations.append(dict(wit, what="C16 view(return_scalar=%s, rescale_x=%s) get_x/get_x_limits/set_x raised %s: %s" % (rs, rx, type(exc).__name__, str(exc)[:100])))
                continue
            want_l = xl_ if rx is None else np.array([[rx[0], rx[1]]] * n, dtype=float)
            if gx.shape != want.shape or not np.allclose(gx, want, rtol=1e-12, atol=1e-12):
                violations.append(dict(wit, what="C16 view(rescale_x=%s).get_x() = %s at knobs %s, weights %s, limits %s: expected %s" % (rx, gx.tolist(), kv.tolist(), spec["wv"], spec["limits"], want.tolist())))
            elif not np.allclose(back_k, kv, rtol=1e-12, atol=1e-12):
                violations.append(dict(wit, what="C16 view(rescale_x=%s).set_x(get_x()) left the knobs at %s, they were %s" % (rx, back_k.tolist(), kv.tolist())))
            elif gl.shape != want_l.shape or not np.allclose(gl, want_l, rtol=1e-12, atol=1e-12):
                violations.append(dict(wit, what="C16 view(rescale_x=%s).get_x_limits() = %s, expected %s" % (rx, gl.tolist(), want_l.tolist())))
            # ---- Jacobian of the view vs central differences of the same view -------------------
            try:
                J = np.atleast_2d(np.array(view.get_jacobian(xv), dtype=float))
            except Exception as exc:
                violations.append(dict(wit, what="C16 view(return_scalar=%s, rescale_x=%s).get_jacobian raised %s: %s" % (rs, rx, type(exc).__name__, str(exc)[:100])))
                continue
            hc = 1e-5 * (1.0 if rx is None else (rx[1] - rx[0]) / 50.0)
            cols = []
            for j in range(n):
                e = np.zeros(n)
                e[j] = hc
                fp, fm = np.atleast_1d(view(xv + e)), np.atleast_1d(view(xv - e))
                cols.append((fp - fm) / (2 * hc))
            Jc = np.atleast_2d(np.array(cols).T)
            counters["view_jacobians_compared"] = counters.get("view_jacobians_compared", 0) + 1
            if J.shape != Jc.shape:
                violations.append(dict(wit, what="C16 view Jacobian has shape %s, finite differences %s" % (J.shape, Jc.shape)))
                continue
            tol = 2e-3 * (1.0 + np.max(np.abs(Jc)))
            if not np.all(np.abs(J - Jc) <= tol):
                violations.append(dict(wit, what="C16 view(return_scalar=%s, rescale_x=%s) Jacobian %s differs from central differences %s (tol %.3g)" % (
                    rs, rx, J.tolist(), Jc.tolist(), tol)))
        digests.add(digest(spec))
        if len(violations) >= 8:
            return


def run_shard(spec_):
    rng = random.Random("C16:%s:%s" % (spec_["seed"], spec_["shard"]))
    optmon.quiet()
    optmon.install_lstsq_contract()
    counters, digests, samples, violations = {}, set(), [], []
    if spec_.get("replay"):
        spec_ = dict(spec_, matrices=300, problems=30, views=20)
    lstsq_direct(rng, spec_["matrices"], counters, digests, violations, samples)
    linear_problems(rng, spec_["problems"], counters, digests, violations, samples)
    views(rng, spec_["views"], counters, digests, violations, samples)
    counters["lstsq_calls_checked"] = optmon.LSTSQ["calls"]
    counters["lstsq_worst_relative_error"] = optmon.LSTSQ["worst_rel_err"]
    for v in optmon.LSTSQ["violations"]:
        violations.append({"what": "C16 contract on SVD.lstsq (inside an optimizer run): " + v["what"], "lstsq": v})
    return {"evaluations": counters.get("lstsq_direct_cases", 0) + counters.get("linear_problems", 0) + counters.get("view_jacobians_compared", 0),
            "digests": sorted(digests), "samples": samples, "counters": counters, "violations": violations[:12], "known": []}


TEXT = ("Held on every case observed: ~24 000 (quick) / ~3.8 million (thorough) direct lstsq cases over all shapes 1..6 x "
        "1..6 plus every lstsq call made inside the optimizer workloads (contract on the real method, also active in "
        "C09/C10/C15), ~480 / 48 000 consistent linear problems (first step, solve with and without Broyden), and every "
        "(return_scalar, rescale_x) view compared with central differences together with the mapping identities. "
        "Numerical tolerances come from an explicit error model; exploration over sampled matrices and problems."
        " Half of the view problems first use other entry points of the same Optimize object (run_simplex, solve, step, run_bfgs, "
        "run_l_bfgs_b, run_ls_trf) with wide tolerances, so that views are also examined at points where every target is met."
        ' The public accessors of every view (get_x at user-written knob values against an independent affine formula, set_x(get_x()), get_x_limits) are part of every problem.')
NOTE = ("Trusted: numpy's SVD/pinv as the independent reference for the truncated minimum-norm solution; the "
        "finite-difference error model behind the tolerances.")
TECHNIQUE = "runtime monitoring: contract (post-condition) on every SVD.lstsq call against an independently recomputed truncated-SVD solution + algebraic identity and finite-difference oracles"
