"""C04 — deferred expressions evaluate to what Python computes on the operand values.

Monitor: reference model per expression.  (a) exhaustive single-node grid: every binary operator
x {ref.ref, ref.lit, lit.ref} x operand grid, unary operators, builtins, calls, item/attr access
with constant and computed keys, every in-place operator on defined and undefined locations;
(b) random trees over the whole operator set, re-evaluated after the operands change through the
manager.  The mirror applies the same Python operator to the operand values; the only allowed
deviation is NaN for ZeroDivisionError in / // %.
"""
import itertools
import math
import operator
import random
import warnings

from vlib import containers as C
from vlib import gen, lockstep
from vlib import programs as P
from vlib.driver import digest
from vlib.shadow import Shadow, guarded_bin, Discard
from vlib.values import canon, enc, signed_zero_differs

ID = "C04"
LEVEL = "exploration"
DECIDING = ("grid_cases_compared", "tree_evaluations_compared", "inplace_cases_compared")
RULE = ("(a) exhaustive over operator x operand form x operand grid (ints incl. 0/negative/large, floats incl. "
        "+-0.0/inf/nan/denormal, bools, complex, numpy scalars, small arrays; ref operands read through dict, "
        "nested dict, attribute and computed-key access); unary operators, abs/round(+-ndigits)/divmod/trunc/"
        "floor/ceil, calls with positional and keyword arguments, every in-place operator on defined and "
        "undefined locations with literal and expression operands; (b) random trees to depth 6, each re-evaluated "
        "after >= 3 operand changes through the manager. Non-trivial = the case evaluated (did not raise in "
        "Python) or raised in both; distinct = sha1 of the case description.")
ASSUMPTIONS = [
    "results compared by value and type (canonical text; NaN equals NaN; sign of zero not compared)",
    "a numpy scalar or array standing left of a ref is excluded (numpy owns the operator); literal operands are hashable Python numbers",
    "integer exponents / shift counts that make Python itself unusable are capped (counted as skipped)",
    "== / != between refs are structural by design; the deferred forms _eq/_neq are what is checked",
]
TIMEOUT = {"quick": 900, "thorough": 5400}

import numpy as np

PY_NUMS = [0, 1, -1, 2, -7, 255, 2 ** 40, True, False,
           0.0, -0.0, 1.5, -2.5, 0.1, float("inf"), float("-inf"), float("nan"), 5e-324, 1e308,
           complex(1, 2), complex(0, 0)]
NP_VALS = [np.float64(2.5), np.int64(3), np.float32(0.5), np.int32(-4), np.bool_(True), np.float64(0.0),
           np.array([1.0, 2.0]), np.array([[1, 2], [3, 4]]), np.array([0.0, -1.5])]
GRID = PY_NUMS + NP_VALS
BINOPS = dict(P.BIN)
BINOPS.update({"eq": operator.eq, "ne": operator.ne})


def plan(tier, seed):
    if tier == "quick":
        return [{"mode": "compiled", "hashseed": 0, "part": "grid", "ops": "even"},
                {"mode": "compiled", "hashseed": 1, "part": "grid", "ops": "odd"},
                {"mode": "pure", "hashseed": 2, "part": "grid-sample"},
                {"mode": "compiled", "hashseed": 3, "part": "trees", "trees": 1800},
                {"mode": "pure", "hashseed": 4, "part": "trees", "trees": 1200}]
    out = [{"mode": m, "hashseed": h, "part": "grid", "ops": o}
           for (m, h) in (("compiled", 0), ("pure", 1)) for o in ("even", "odd")]
    out += [{"mode": "compiled" if i % 2 == 0 else "pure", "hashseed": i % 8, "part": "trees", "trees": 12000}
            for i in range(28)]
    return out


def too_big(op, a, b):
    def isint(x):
        return isinstance(x, (int, np.integer)) and not isinstance(x, (bool, np.bool_))
    if op in ("pow", "lshift"):
        if isint(b) and abs(int(b)) > 512:
            return True
        if op == "pow" and isint(a) and isint(b) and abs(int(a)) > 2 ** 20 and int(b) > 16:
            return True
    return False


def outcome(fn):
    try:
        with warnings.catch_warnings():
            warnings.simplefilter("ignore")
            return ("ok", fn())
    except RecursionError:
        raise
    except Exception as exc:
        return ("exc", type(exc).__name__)


def agree(got, want, nan_ok):
    """got: outcome of the deferred expression; want: outcome of plain Python."""
    if want[0] == "exc":
        if want[1] == "ZeroDivisionError" and nan_ok:
            return got[0] == "ok" and isinstance(got[1], float) and got[1] != got[1]
        return got == want
    if got[0] != "ok":
        return False
    return canon(got[1]) == canon(want[1])


class Grid:
    def __init__(self, counters, digests, violations, samples):
        import xdeps
        self.xd = xdeps
        self.R = xdeps.refs
        self.m = xdeps.Manager()
        self.o = type("Obj", (), {})()
        self.d = {"a": 0, "b": 0, "n": {"x": 0, "y": 0}, "l": [0, 0], "o": self.o, "ki": 1, "ks": "y"}
        self.o.p = 0
        self.o.q = 0
        self.r = self.m.ref(self.d, "r")
        self.counters, self.digests, self.violations, self.samples = counters, digests, violations, samples
        r = self.r
        # (ref factory, setter) for the two operand slots: different access forms
        self.forms_a = [("item", lambda: r["a"], lambda v: self.d.__setitem__("a", v)),
                        ("nested", lambda: r["n"]["x"], lambda v: self.d["n"].__setitem__("x", v)),
                        ("attr", lambda: r["o"].p, lambda v: setattr(self.o, "p", v)),
                        ("computed-key", lambda: r["l"][r["ki"]], lambda v: self.d["l"].__setitem__(1, v))]
        self.forms_b = [("item", lambda: r["b"], lambda v: self.d.__setitem__("b", v)),
                        ("computed-key", lambda: r["n"][r["ks"]], lambda v: self.d["n"].__setitem__("y", v)),
                        ("attr", lambda: r["o"].q, lambda v: setattr(self.o, "q", v)),
                        ("list", lambda: r["l"][0], lambda v: self.d["l"].__setitem__(0, v))]

    def record(self, desc, got, want, nan_ok):
        self.counters["grid_cases_compared"] = self.counters.get("grid_cases_compared", 0) + 1
        if got[0] == "ok" and want[0] == "ok" and signed_zero_differs(got[1], want[1]):
            self.counters["signed_zero_differences"] = self.counters.get("signed_zero_differences", 0) + 1
        if want[0] == "exc":
            self.counters["python_raises"] = self.counters.get("python_raises", 0) + 1
            if want[1] == "ZeroDivisionError" and nan_ok:
                self.counters["nan_for_zero_division"] = self.counters.get("nan_for_zero_division", 0) + 1
        if not agree(got, want, nan_ok):
            if len(self.violations) < 12:
                self.violations.append({"what": "C04 %s: deferred %s, Python %s" % (
                    desc, (got[0], canon(got[1]) if got[0] == "ok" else got[1]),
                    (want[0], canon(want[1]) if want[0] == "ok" else want[1])), "case": desc})
            return
        self.digests.add(digest(desc))
        if len(self.samples) < 3 and self.counters["grid_cases_compared"] % 997 == 0:
            self.samples.append({"case": desc, "result": canon(got[1]) if got[0] == "ok" else got[1]})

    def binary(self, which, sample=None):
        names = sorted(BINOPS)
        if which in ("even", "odd"):
            names = [n for i, n in enumerate(names) if (i % 2 == 0) == (which == "even")]
        R = self.R
        for name in names:
            fn = BINOPS[name]
            nan_ok = name in P.ZERO_DIV_NAN
            for ia, a in enumerate(GRID):
                for ib, b in enumerate(GRID):
                    if sample is not None and sample.random() > 0.25:
                        continue
                    if too_big(name, a, b):
                        self.counters["skipped_too_big"] = self.counters.get("skipped_too_big", 0) + 1
                        continue
                    fa = self.forms_a[(ia + ib) % len(self.forms_a)]
                    fb = self.forms_b[(ia * 3 + ib) % len(self.forms_b)]
                    want = outcome(lambda: fn(a, b))
                    # ref . ref
                    fa[2](a), fb[2](b)
                    ra, rb = fa[1](), fb[1]()
                    if name in ("eq", "ne"):
                        mk = (lambda: ra._eq(rb)) if name == "eq" else (lambda: ra._neq(rb))
                    else:
                        mk = lambda: fn(ra, rb)
                    self.record([name, "ref.ref", fa[0], fb[0], canon(a), canon(b)],
                                outcome(lambda: mk()._get_value()), want, nan_ok)
                    # ref . literal  (literal must be a hashable Python number)
                    if ib < len(PY_NUMS):
                        if name in ("eq", "ne"):
                            mk2 = (lambda: ra._eq(b)) if name == "eq" else (lambda: ra._neq(b))
                        else:
                            mk2 = lambda: fn(ra, b)
                        self.record([name, "ref.lit", fa[0], canon(a), canon(b)],
                                    outcome(lambda: mk2()._get_value()), want, nan_ok)
                    # literal . ref  (numpy on the left is excluded: numpy owns the operator)
                    if ia < len(PY_NUMS):
                        if name in ("eq", "ne"):
                            cls = R.EqExpr if name == "eq" else R.NeExpr
                            mk3 = lambda: cls(a, rb)
                        else:
                            mk3 = lambda: fn(a, rb)
                        e = outcome(mk3)
                        if e[0] == "ok" and not isinstance(e[1], R.BaseRef):
                            # Python resolved the operator without the ref (cannot happen for numbers)
                            self.counters["literal_left_not_deferred"] = self.counters.get("literal_left_not_deferred", 0) + 1
                            continue
                        self.record([name, "lit.ref", fb[0], canon(a), canon(b)],
                                    outcome(lambda: mk3()._get_value()), want, nan_ok)

    def unary_builtins_calls(self):
        import builtins
        r, d = self.r, self.d
        for ia, a in enumerate(GRID):
            fa = self.forms_a[ia % len(self.forms_a)]
            fa[2](a)
            for name, fn in P.UN.items():
                self.record(["un", name, fa[0], canon(a)], outcome(lambda: fn(fa[1]())._get_value()),
                            outcome(lambda: fn(a)), False)
            # two unary operators directly on top of each other (-(-x), ~-x, +(-x), abs(-x) ...)
            for n1, f1 in list(P.UN.items()) + [("abs", abs)]:
                for n2, f2 in list(P.UN.items()) + [("abs", abs)]:
                    self.record(["un.un", n1, n2, fa[0], canon(a)], outcome(lambda: f1(f2(fa[1]()))._get_value()),
                                outcome(lambda: f1(f2(a))), False)
            for name in ("abs", "trunc", "floor", "ceil"):
                fn = P.BI[name]
                self.record(["builtin", name, fa[0], canon(a)], outcome(lambda: fn(fa[1]())._get_value()),
                            outcome(lambda: fn(a)), False)
            self.record(["builtin", "round", fa[0], canon(a)], outcome(lambda: round(fa[1]())._get_value()),
                        outcome(lambda: round(a)), False)
            for nd in (0, 1, 2, -1, -2, None):
                self.record(["builtin", "round", nd, fa[0], canon(a)], outcome(lambda: round(fa[1](), nd)._get_value()),
                            outcome(lambda: round(a, nd)), False)
                if nd is not None:
                    d["b"] = nd
                    self.record(["builtin", "round", "ref-ndigits", nd, fa[0], canon(a)],
                                outcome(lambda: round(fa[1](), r["b"])._get_value()), outcome(lambda: round(a, nd)), False)
            for ib, b in enumerate(GRID):
                fb = self.forms_b[ib % len(self.forms_b)]
                fb[2](b)
                self.record(["builtin", "divmod", "ref.ref", canon(a), canon(b)],
                            outcome(lambda: divmod(fa[1](), fb[1]())._get_value()), outcome(lambda: divmod(a, b)), False)
                if ib < len(PY_NUMS):
                    self.record(["builtin", "divmod", "ref.lit", canon(a), canon(b)],
                                outcome(lambda: divmod(fa[1](), b)._get_value()), outcome(lambda: divmod(a, b)), False)
        # calls with positional and keyword arguments through a function container
        fbox = C.FnBox("f")
        f = self.m.ref(fbox, "f%d" % len(self.m.containers))
        mirror = lockstep.Shadow.__init__.__globals__["FN"]
        nums = [x for x in PY_NUMS if not isinstance(x, complex)][:14]
        for a, b, c in itertools.product(nums[::2], nums[1::3], nums[::4]):
            d["a"], d["b"], d["n"]["x"] = a, b, c
            cases = [
                ("lin(a)", lambda: f.lin(r["a"]), lambda: mirror.lin(a)),
                ("lin(a,b)", lambda: f.lin(r["a"], r["b"]), lambda: mirror.lin(a, b)),
                ("lin(a,k=c)", lambda: f.lin(r["a"], k=r["n"]["x"]), lambda: mirror.lin(a, k=c)),
                ("lin(2,b,k=c)", lambda: f.lin(2, r["b"], k=r["n"]["x"]), lambda: mirror.lin(2, b, k=c)),
                ("sub3(a,z=b,y=c)", lambda: f.sub3(r["a"], z=r["b"], y=r["n"]["x"]), lambda: mirror.sub3(a, z=b, y=c)),
                ("sub3(a,b,1.5)", lambda: f.sub3(r["a"], r["b"], 1.5), lambda: mirror.sub3(a, b, 1.5)),
                ("mean(a,b,c,w=2)", lambda: f.mean(r["a"], r["b"], r["n"]["x"], w=2), lambda: mirror.mean(a, b, c, w=2)),
                ("pick(a,b,b=c)", lambda: f.pick(r["a"], r["b"], b=r["n"]["x"]), lambda: mirror.pick(a, b, b=c)),
                ("sq(a+b)", lambda: f.sq(r["a"] + r["b"]), lambda: mirror.sq(a + b)),
                ("kws(z=a,y=b,x=c)", lambda: f.kws(z=r["a"], y=r["b"], x=r["n"]["x"]), lambda: mirror.kws(z=a, y=b, x=c)),
                ("kws(c,p=a,a=b)", lambda: f.kws(r["n"]["x"], p=r["a"], a=r["b"]), lambda: mirror.kws(c, p=a, a=b)),
                ("kws(y=2,x=a)", lambda: f.kws(y=2, x=r["a"]), lambda: mirror.kws(y=2, x=a)),
            ]
            for name, mk, py in cases:
                self.record(["call", name, canon(a), canon(b), canon(c)], outcome(lambda: mk()._get_value()), outcome(py), False)

    def ternary(self, sample=None):
        """Two nested binary nodes, both groupings, over operand triples that include arrays of different
        dtype / shape and sequences: `(a op1 b) op2 c` and `a op1 (b op2 c)` must be what Python computes
        from the operand values (type, dtype and shape included), and no operand may be modified."""
        r, d = self.r, self.d
        vals = [1, 2.5, True, np.int64(3), np.float32(0.5), np.array([1, 2]), np.array([1.0, 2.0]),
                np.array([0.5, 1.5], dtype=np.float32), np.array([[1, 2], [3, 4]]), np.array([[0.5, 1.5]]),
                [1, 2], (3, 4), "ab"]
        pairs = [("add", "add"), ("mul", "mul"), ("sub", "sub"), ("add", "mul"), ("mul", "add"), ("add", "sub"),
                 ("sub", "add"), ("truediv", "mul"), ("and", "or"), ("or", "or")]
        snap = lambda: (canon(d["a"]), canon(d["b"]), canon(d["n"]["x"]))
        for n1, n2 in pairs:
            f1, f2 = BINOPS[n1], BINOPS[n2]
            nan_ok = n1 in P.ZERO_DIV_NAN or n2 in P.ZERO_DIV_NAN
            for a, b, c in itertools.product(vals, repeat=3):
                if sample is not None and sample.random() > 0.25:
                    continue
                import copy as _copy
                d["a"], d["b"], d["n"]["x"] = _copy.deepcopy(a), _copy.deepcopy(b), _copy.deepcopy(c)
                before = snap()
                for shape in ("L", "R"):
                    if shape == "L":
                        py = lambda: f2(f1(_copy.deepcopy(a), _copy.deepcopy(b)), _copy.deepcopy(c))
                        mk = lambda: f2(f1(r["a"], r["b"]), r["n"]["x"])
                    else:
                        py = lambda: f1(_copy.deepcopy(a), f2(_copy.deepcopy(b), _copy.deepcopy(c)))
                        mk = lambda: f1(r["a"], f2(r["b"], r["n"]["x"]))
                    want = outcome(py)
                    if want[0] == "exc" and want[1] == "ZeroDivisionError":
                        continue
                    got = outcome(lambda: mk()._get_value())
                    self.counters["ternary_cases_compared"] = self.counters.get("ternary_cases_compared", 0) + 1
                    self.record(["ternary", n1, n2, shape, canon(a), canon(b), canon(c)], got, want, False)
                    if snap() != before:
                        if len(self.violations) < 12:
                            self.violations.append({"what": "C04 ternary %s/%s %s: evaluating the expression modified an operand: %s -> %s" % (
                                n1, n2, shape, before, snap())})
                        d["a"], d["b"], d["n"]["x"] = _copy.deepcopy(a), _copy.deepcopy(b), _copy.deepcopy(c)
            if len(self.violations) >= 12:
                break

    def reeval(self):
        """The SAME expression objects evaluated again after every kind of operand change: a leaf value, a key value, an
        intermediate container / object replaced as a whole by a new one, the callee (function value, object whose
        bound method is called) replaced by another callable.  Each change is made directly in the containers or
        through the manager; after each one every expression must equal what Python computes from the current values."""
        import xdeps
        m = xdeps.Manager()

        class Gain:
            def __init__(self, g):
                self.g = g

            def apply(self, x, k=0):
                return self.g * x + k

        class Obj:
            def __init__(self, p, q):
                self.p, self.q = p, q

        d = {"a": 2, "b": 3, "n": {"x": 5, "y": 7}, "l": [11, 13], "o": Obj(17, 19), "ki": 1, "ks": "y",
             "f": (lambda x, k=0: x + k), "amp": Gain(2), "fs": {"g": (lambda x: x * 3)}, "oo": Obj(Obj(1, 2), 0)}
        r = m.ref(d, "r")
        exprs = [
            ("n.x", r["n"]["x"], lambda: d["n"]["x"]),
            ("n[ks]", r["n"][r["ks"]], lambda: d["n"][d["ks"]]),
            ("l[ki]", r["l"][r["ki"]], lambda: d["l"][d["ki"]]),
            ("l[ki-1]", r["l"][r["ki"] - 1], lambda: d["l"][d["ki"] - 1]),
            ("o.p", r["o"].p, lambda: d["o"].p),
            ("oo.p.q", r["oo"].p.q, lambda: d["oo"].p.q),
            ("n.x+o.p*l[0]", r["n"]["x"] + r["o"].p * r["l"][0], lambda: d["n"]["x"] + d["o"].p * d["l"][0]),
            ("-n.y", -r["n"]["y"], lambda: -d["n"]["y"]),
            ("abs(o.q)-2", abs(r["o"].q) - 2, lambda: abs(d["o"].q) - 2),
            ("3*l[1]", 3 * r["l"][1], lambda: 3 * d["l"][1]),
            ("f(a,k=b)", r["f"](r["a"], k=r["b"]), lambda: d["f"](d["a"], k=d["b"])),
            ("f(n.x)", r["f"](r["n"]["x"]), lambda: d["f"](d["n"]["x"])),
            ("amp.apply(a)", r["amp"].apply(r["a"]), lambda: d["amp"].apply(d["a"])),
            ("amp.apply(a,k=o.p)", r["amp"].apply(r["a"], k=r["o"].p), lambda: d["amp"].apply(d["a"], k=d["o"].p)),
            ("fs.g(n.x)", r["fs"]["g"](r["n"]["x"]), lambda: d["fs"]["g"](d["n"]["x"])),
            ("round(n.x/b,ki)", round(r["n"]["x"] / r["b"], r["ki"]), lambda: round(d["n"]["x"] / d["b"], d["ki"])),
            ("divmod(l[0],b)", divmod(r["l"][0], r["b"]), lambda: divmod(d["l"][0], d["b"])),
        ]
        def direct(key, val):
            return lambda: d.__setitem__(key, val)

        def through(key, val):
            return lambda: r.__setitem__(key, val)

        changes = [("nothing", lambda: None)]
        for how, mk in (("direct", direct), ("manager", through)):
            changes += [
                (how + " a=5", mk("a", 5)), (how + " b=-2", mk("b", -2)), (how + " ks='x'", mk("ks", "x")), (how + " ki=0", mk("ki", 0)),
                (how + " n replaced", mk("n", {"x": 23, "y": 29})), (how + " l replaced", mk("l", [31, 37])),
                (how + " o replaced", mk("o", Obj(41, 43))), (how + " oo replaced", mk("oo", Obj(Obj(47, 53), 0))),
                (how + " f replaced", mk("f", (lambda x, k=0: x * 10 - k))), (how + " amp replaced", mk("amp", Gain(10))),
                (how + " fs replaced", mk("fs", {"g": (lambda x: x - 1)})),
                (how + " a=1.5", mk("a", 1.5)), (how + " ki=1", mk("ki", 1)), (how + " ks='y'", mk("ks", "y")),
                (how + " n replaced again", mk("n", {"x": -1.5, "y": 0.25})), (how + " f replaced again", mk("f", (lambda x, k=0: k - x))),
            ]
        changes += [
            ("manager n.x=59", lambda: r["n"].__setitem__("x", 59)), ("manager o.p=61", lambda: setattr(r["o"], "p", 61)),
            ("manager fs.g replaced", lambda: r["fs"].__setitem__("g", (lambda x: x + 100))),
            ("manager oo.p replaced", lambda: setattr(r["oo"], "p", Obj(67, 71))),
            ("direct amp.g=4 (in place)", lambda: setattr(d["amp"], "g", 4)),
            ("manager l[1]=73", lambda: r["l"].__setitem__(1, 73)),
        ]
        tasks = []
        for cname, change in changes:
            if cname.startswith("manager") and not tasks:
                # two of the expressions are now also installed as definitions: from here on every change goes through
                # the manager, which evaluates the very same expression objects and keeps the targets up to date
                r["t1"] = exprs[10][1]
                r["t2"] = exprs[6][1]
                tasks = [("task t1 = f(a,k=b)", r["t1"], lambda: d["f"](d["a"], k=d["b"])),
                         ("task t2 = n.x+o.p*l[0]", r["t2"], lambda: d["n"]["x"] + d["o"].p * d["l"][0])]
            if cname.startswith("direct"):
                tasks_fresh = False
            else:
                tasks_fresh = bool(tasks)
            change()
            for name, e, py in exprs + (tasks if tasks_fresh else []):
                got = outcome(lambda: e._get_value())
                want = outcome(py)
                self.counters["reevaluations_of_the_same_object"] = self.counters.get("reevaluations_of_the_same_object", 0) + 1
                self.record(["reeval", name, "after " + cname], got, want, False)

    def access(self):
        """Item and attribute access with constant and computed keys, nested."""
        r, d = self.r, self.d
        for v in GRID[:12]:
            d["n"]["x"], d["n"]["y"], d["l"][0], d["l"][1], self.o.p = v, 1, v, 2, v
            for ks, ki in (("x", 0), ("y", 1)):
                d["ks"], d["ki"] = ks, ki
                self.record(["access", "n[ks]", ks, canon(v)], outcome(lambda: r["n"][r["ks"]]._get_value()), outcome(lambda: d["n"][ks]), False)
                self.record(["access", "l[ki]", ki, canon(v)], outcome(lambda: r["l"][r["ki"]]._get_value()), outcome(lambda: d["l"][ki]), False)
                self.record(["access", "l[ki-1]", ki, canon(v)], outcome(lambda: r["l"][r["ki"] - 1]._get_value()), outcome(lambda: d["l"][ki - 1]), False)
            self.record(["access", "o.p", canon(v)], outcome(lambda: r["o"].p._get_value()), ("ok", v), False)
            self.record(["access", "missing-key", canon(v)], outcome(lambda: r["n"]["nope"]._get_value()), ("exc", "KeyError"), False)
            self.record(["access", "missing-index", canon(v)], outcome(lambda: r["l"][7]._get_value()), ("exc", "IndexError"), False)
            self.record(["access", "missing-attr", canon(v)], outcome(lambda: r["o"].nope._get_value()), ("exc", "AttributeError"), False)


def inplace_mutable_cases(counters, violations):
    """In-place operators on a location whose OLD VALUE is a mutable object (list, numpy array, dict, set, bytearray):
    the new value is what Python's BINARY operator gives on the old value and the operand (same exception type if that
    raises), and neither the old value object nor the operand object is modified.  Plus: the old EXPRESSION is a bare
    reference (a = b; a += 1): the new definition is b + 1 and follows b."""
    import copy
    import operator
    import numpy as np
    import xdeps
    AUG = {"add": "__iadd__", "mul": "__imul__", "truediv": "__itruediv__", "sub": "__isub__", "pow": "__ipow__", "floordiv": "__ifloordiv__",
           "lshift": "__ilshift__", "rshift": "__irshift__", "and_": "__iand__", "or_": "__ior__", "xor": "__ixor__", "mod": "__imod__", "matmul": "__imatmul__"}
    cases = [
        ([1, 2], [("add", [3]), ("add", (3,)), ("mul", 2), ("add", "ab")]),
        (np.array([1, 2, 3]), [("add", 0.5), ("truediv", 2), ("mul", 2), ("mul", 1.5), ("floordiv", 2), ("pow", 2), ("pow", 0.5), ("lshift", 1), ("rshift", 1),
                               ("and_", 1), ("or_", 4), ("xor", 1), ("mod", 2), ("sub", np.array([0.5, 0.5, 0.5])), ("add", [1, 1, 1]), ("add", np.array([1, 2]))]),
        (np.array([1.0, 2.0]), [("add", 1), ("mul", 1j), ("truediv", 0), ("matmul", np.array([1.0, 1.0])), ("floordiv", 0.5)]),
        (np.array(7), [("truediv", 2), ("add", 0.5)]),
        (np.array([True, False]), [("add", 1), ("or_", True), ("mul", 2.0)]),
        ({"a": 1}, [("or_", {"b": 2}), ("or_", [("c", 3)])]),
        ({1, 2}, [("or_", {3}), ("sub", {1}), ("and_", {2, 9}), ("xor", {2, 5}), ("or_", [3])]),
        (bytearray(b"ab"), [("add", b"c"), ("mul", 2), ("add", "c")]),
    ]

    def same(a, b):
        if isinstance(a, np.ndarray) or isinstance(b, np.ndarray):
            return isinstance(a, np.ndarray) and isinstance(b, np.ndarray) and a.dtype == b.dtype and a.shape == b.shape and \
                bool(np.all((a == b) | ((a != a) & (b != b))))
        return type(a) is type(b) and a == b
    for old0, ops in cases:
        for opname, k0 in ops:
            old, k = copy.deepcopy(old0), copy.deepcopy(k0)
            with np.errstate(all="ignore"):
                try:
                    want = ("ok", getattr(operator, opname)(copy.deepcopy(old0), copy.deepcopy(k0)))
                except Exception as exc:
                    want = ("exc", type(exc).__name__)
            m = xdeps.Manager()
            d = {"p": old}
            r = m.ref(d, "r")
            case = "%s %s= %r" % (type(old0).__name__ + (":" + str(old0.dtype) if isinstance(old0, np.ndarray) else ""), opname, k0)
            counters["inplace_mutable_cases_compared"] = counters.get("inplace_mutable_cases_compared", 0) + 1
            with np.errstate(all="ignore"):
                try:
                    r["p"] = getattr(r["p"], AUG[opname])(k)        # what `r['p'] op= k` does
                    got = ("ok", d["p"])
                except Exception as exc:
                    got = ("exc", type(exc).__name__)
            if got[0] != want[0] or (got[0] == "exc" and got[1] != want[1]) or (got[0] == "ok" and not same(got[1], want[1])):
                violations.append({"what": "C04 in-place %s on a mutable old value: the library gives %s, Python's old %s operand gives %s" % (case, got, opname, want)})
                continue
            if not same(old, old0) and not (got[0] == "ok" and got[1] is old and False):
                violations.append({"what": "C04 in-place %s: the OLD value object was modified: it was %r and is now %r" % (case, old0, old)})
            elif not same(k, k0) if not isinstance(k0, (str, bytes, int, float, complex, bool)) else False:
                violations.append({"what": "C04 in-place %s: the operand object was modified: it was %r and is now %r" % (case, k0, k)})
    # the old expression is a bare reference
    for opname, k, f in (("add", 1, lambda b: b + 1), ("mul", 3, lambda b: b * 3), ("pow", 2, lambda b: b ** 2), ("sub", 0.5, lambda b: b - 0.5)):
        m = xdeps.Manager()
        d = {"a": 0, "b": 10}
        r = m.ref(d, "r")
        r["a"] = r["b"]
        r["a"] = getattr(r["a"], AUG[opname])(k)
        first = d["a"]
        r["b"] = 20
        counters["inplace_mutable_cases_compared"] = counters.get("inplace_mutable_cases_compared", 0) + 1
        if not (same(first, f(10)) and same(d["a"], f(20))):
            violations.append({"what": "C04 a = b; a %s= %r; b = 20: a holds %r then %r, expected %r then %r (the old expression combined with the operand)" % (
                opname, k, first, d["a"], f(10), f(20))})


def inplace_grid(counters, digests, violations, samples, sample=None):
    """Every in-place operator x {undefined, defined} target x {literal, expression} operand."""
    I = gen.I
    vals = [3, -2, 0, 7, 1.5, -0.5, 0.0, 2.0, True]
    world0 = gen.make_world(random.Random("c04-inplace"), True, n_flat=3)[0]
    tpath, cpath, bpath = ["r", I("t0")], ["r", I("v0")], ["r", I("v1")]
    for opname in sorted(P.IOPS):
        if opname == "matmul":
            continue
        for old, operand, defined, operand_is_expr in itertools.product(vals, vals, (False, True), (False, True)):
            if sample is not None and sample.random() > 0.2:
                continue
            if too_big(opname, old, operand):
                continue
            ops = [["set", cpath, ["v", enc(old)]], ["set", bpath, ["v", enc(operand)]]]
            if defined:
                ops.append(["set", tpath, ["t", ["bin", "mul", ["ref", cpath], ["lit", 1]]]])
            else:
                ops.append(["set", tpath, ["v", enc(old)]])
            ops.append(["iop", tpath, opname, ["t", ["ref", bpath]] if operand_is_expr else ["v", enc(operand)]])
            # afterwards change the operands through the manager: the new definition must follow
            ops.append(["set", cpath, ["v", enc(vals[(vals.index(old) + 1) % len(vals)])]])
            ops.append(["set", bpath, ["v", enc(vals[(vals.index(operand) + 2) % len(vals)])]])
            desc = ["inplace", opname, canon(old), canon(operand), "defined" if defined else "undefined",
                    "expr-operand" if operand_is_expr else "literal-operand"]
            sh = Shadow(world0)
            ls = lockstep.LockStep(world0)
            counters["inplace_cases_compared"] = counters.get("inplace_cases_compared", 0) + 1
            for i, op in enumerate(ops):
                try:
                    sh.apply(op)
                    exp, pyexc = sh.all_expected(), None
                except Discard:
                    pyexc = "skip"
                    break
                except Exception as exc:
                    exp, pyexc = None, type(exc).__name__
                f = ls.step(op, exp)
                if pyexc is not None:
                    if not f or f["kind"] != "exception" or f["exc_type"] != pyexc:
                        violations.append({"what": "C04 %s: Python raises %s, the library %s" % (desc, pyexc, f), "case": desc,
                                           "world": world0, "ops": ops[:i + 1]})
                    break
                if f:
                    violations.append({"what": "C04 %s step %d: %s" % (desc, i, f), "case": desc, "world": world0, "ops": ops[:i + 1]})
                    break
            else:
                digests.add(digest(desc))
            if len(violations) > 12:
                return


def trees(spec, rng, counters, digests, violations, samples):
    """Random trees over the whole operator set; re-evaluated after operand changes."""
    for t in range(spec["trees"]):
        world, locs = gen.make_world(rng, True)
        sh = Shadow(world)
        ls = lockstep.LockStep(world)
        tg = gen.TermGen(rng, "full")
        readable = [l for l in locs if l["group"] == "leaf"] + [l for l in locs if l["group"] in ("n", "l", "o")]
        term = tg.deferred_term(readable, rng.randrange(2, 7))
        try:
            sh.guard_literals(term)
            sh.eval(term)       # guarded dry run (a tower of powers would never return)
        except Discard:
            counters["trees_skipped_too_big"] = counters.get("trees_skipped_too_big", 0) + 1
            continue
        except Exception:
            pass
        try:
            expr = ls.runner.build(term)
        except Exception as exc:
            # building evaluates literal-only sub-terms: Python itself must raise the same
            try:
                sh.eval(term)
                violations.append({"what": "C04 building %s raised %s but Python evaluates it" % (term, type(exc).__name__),
                                   "world": world, "term": term})
            except Exception:
                counters["trees_python_rejects_at_build"] = counters.get("trees_python_rejects_at_build", 0) + 1
            continue
        counters["trees"] = counters.get("trees", 0) + 1
        leaves = [l for l in locs if l["group"] == "leaf"]
        nontrivial = False
        for round_ in range(rng.randrange(4, 7)):
            if round_:
                l = rng.choice(readable)
                v = gen.leaf_value(rng, l["kind"] if l["group"] == "leaf" else "float")
                op = ["set", l["path"], ["v", enc(v)]]
                sh.apply(op)
                ls.runner.exec_op(op)
            try:
                want = ("ok", sh.eval(term))
            except Discard:
                counters["trees_skipped_too_big"] = counters.get("trees_skipped_too_big", 0) + 1
                break
            except Exception as exc:
                want = ("exc", type(exc).__name__)
            got = outcome(lambda: expr._get_value())
            counters["tree_evaluations_compared"] = counters.get("tree_evaluations_compared", 0) + 1
            if want[0] == "exc":
                counters["tree_python_raises"] = counters.get("tree_python_raises", 0) + 1
            ok = (got == want) if want[0] == "exc" else (got[0] == "ok" and canon(got[1]) == canon(want[1]))
            if not ok:
                violations.append({"what": "C04 tree: deferred %s, Python %s" % (
                    (got[0], canon(got[1]) if got[0] == "ok" else got[1]), (want[0], canon(want[1]) if want[0] == "ok" else want[1])),
                    "world": world, "term": term, "ops": list(ls.ops)})
                break
            if want[0] == "ok":
                nontrivial = True
        if nontrivial:
            digests.add(digest(term))
        if len(samples) < 2 and P.term_depth(term) >= 4:
            samples.append({"term": term})
        if len(violations) > 8:
            return


def run_shard(spec):
    rng = random.Random("C04:%s:%s" % (spec["seed"], spec["shard"]))
    counters, digests, samples, violations = {}, set(), [], []
    warnings.simplefilter("ignore")
    part = spec.get("part")
    if spec.get("replay"):
        part = "grid-sample"
    if part == "grid":
        g = Grid(counters, digests, violations, samples)
        g.binary(spec["ops"])
        if spec["ops"] == "even":
            g.unary_builtins_calls()
            g.access()
            g.reeval()
            g.ternary()
        else:
            inplace_mutable_cases(counters, violations)
            inplace_grid(counters, digests, violations, samples)
        counters["exhaustive"] = True
    elif part == "grid-sample":
        g = Grid(counters, digests, violations, samples)
        g.binary("all", sample=rng)
        g.unary_builtins_calls()
        g.access()
        g.reeval()
        g.ternary(sample=rng)
        inplace_mutable_cases(counters, violations)
        inplace_grid(counters, digests, violations, samples, sample=rng)
    else:
        trees(spec, rng, counters, digests, violations, samples)
    return {"evaluations": counters.get("grid_cases_compared", 0) + counters.get("tree_evaluations_compared", 0)
            + counters.get("inplace_cases_compared", 0),
            "digests": sorted(digests), "samples": samples, "counters": counters, "violations": violations, "known": []}


TEXT = ("Held on every evaluation observed: the complete single-node grid (all 19 binary node classes x 3 operand "
        "forms x 30x30 operand grid, unary operators, builtins with and without parameters, calls, access forms, "
        "every in-place operator x target state x operand kind: ~60 000 cases, exhaustive over the stated grid) in "
        "the compiled build and a 25% sample in the pure build, plus ~15 000 (quick) / ~1.7 million (thorough) "
        "evaluations of random trees re-evaluated after operand changes. The grid is exhaustive over its finite "
        "scope; arbitrary depth and all numeric inputs are sampled."
        ' Plus a ternary grid: two nested binary nodes, both groupings, 10 operator pairs x 13^3 operand triples including arrays of different dtype/shape, lists, tuples and strings (operands must stay unmodified). Plus a re-evaluation family: 21 expression objects (accesses, calls through a function-valued location and a bound method, two installed as definitions) re-evaluated after 39 changes (leaf / key values, whole containers, objects and callees replaced, directly and through the manager).')
NOTE = ("Trusted: Python's own operators as the mirror; canonical by-value-and-type comparison (sign of zero not "
        "compared, counted); caps on integer exponents/shifts.")
TECHNIQUE = "runtime monitoring: reference-model oracle per expression node (same Python operator on the operand values), exhaustive operator x form x operand grid + random trees re-evaluated after operand changes"
