"""C13 — generated setter functions are equivalent to assigning through the manager.

Translation validation: every function produced by gen_fun is validated against the manager on
several argument vectors (twin manager with the same history, values assigned one by one), and the
source produced by mk_fun is parsed back and checked: triggered expression tasks once each, in
dependency order (C02 oracles).
"""
import itertools
import random

from checks import c02
from vlib import gen, kf, lockstep, mgrmon
from vlib import programs as P
from vlib.driver import digest
from vlib.values import canon, enc

ID = "C13"
LEVEL = "translation_validation"
ROUNDING_SENSITIVE = [0.1, 0.2, 0.3, 0.7, 1.0 / 3.0, 1e16, -1e16, 1.0, 1.1e-16, 3.3e15, 2.5e-9, 123456.789]
DECIDING = ("programs", "argument_vectors_compared", "sources_checked")
RULE = ("program = (acyclic layered manager of expression tasks over dict/list/attribute and function containers, "
        "non-empty subset of <= 4 leaf references); each generated function is called with 4 argument vectors and "
        "compared with a twin manager on which the same values are assigned one by one; vectors for which Python "
        "would divide by zero (or raise) are discarded and counted. Non-trivial = the function lists >= 2 tasks; "
        "distinct = sha1 of (world, ops, argument refs).")
ASSUMPTIONS = [
    "the twin replays the same history, so both sides start from identical containers and definitions",
    "'triggered' in the source check: every task truly downstream of an argument must be listed, nothing outside the C02 trigger closure may be",
]
TIMEOUT = {"quick": 900, "thorough": 5400}
PROFILE = frozenset(["keys", "builtins", "divmod", "eqne", "litexpr"])


def plan(tier, seed):
    if tier == "quick":
        return [{"mode": "compiled", "hashseed": 0, "managers": 130}, {"mode": "compiled", "hashseed": 1, "managers": 130},
                {"mode": "pure", "hashseed": 2, "managers": 130}, {"mode": "pure", "hashseed": 3, "managers": 130}]
    return [{"mode": "compiled" if i % 2 == 0 else "pure", "hashseed": i % 8, "managers": 1400} for i in range(32)]


def grouping_family(counters, digests, violations):
    """Directed family: t = a op1 (b op2 c) and t = (a op2 b) op1 c for all operator pairs, called with
    values on which the grouping of float operations is visible; function vs manager vs plain Python."""
    import itertools
    import operator
    import xdeps
    OPS = {"+": operator.add, "-": operator.sub, "*": operator.mul, "/": operator.truediv}
    rng = random.Random("C13-grouping")
    vecs = [tuple(rng.choice(ROUNDING_SENSITIVE) for _ in range(3)) for _ in range(60)] + [(0.1, 0.2, 0.3), (1e16, 1.0, 1.0), (1e16, -1e16, 1.0)]
    for (n1, f1), (n2, f2), shape in itertools.product(OPS.items(), OPS.items(), "LR"):
        def build(a, b, c):
            return f1(a, f2(b, c)) if shape == "R" else f1(f2(a, b), c)
        da = {"a": 1.0, "b": 2.0, "c": 4.0, "t": 0.0, "u": 0.0}
        db = dict(da)
        ma, mb = xdeps.Manager(), xdeps.Manager()
        ra, rb = ma.ref(da, "r"), mb.ref(db, "r")
        for r_ in (ra, rb):
            r_["t"] = build(r_["a"], r_["b"], r_["c"])
            r_["u"] = r_["t"] * 0.5 + build(r_["c"], r_["a"], r_["b"])
        name = "a %s (b %s c)" % (n1, n2) if shape == "R" else "(a %s b) %s c" % (n2, n1)
        try:
            fn = ma.gen_fun("setter", a=ra["a"], b=ra["b"], c=ra["c"])
        except Exception as exc:
            violations.append({"what": "C13 grouping family %s: gen_fun raised %s: %s" % (name, type(exc).__name__, exc)})
            continue
        counters["grouping_programs"] = counters.get("grouping_programs", 0) + 1
        digests.add(digest(["grouping", name]))
        for a, b, c in vecs:
            try:
                t = build(a, b, c)
                want = {"t": t, "u": t * 0.5 + build(c, a, b)}
            except ZeroDivisionError:
                continue
            fn(a, b, c)
            rb["a"], rb["b"], rb["c"] = a, b, c
            counters["grouping_vectors_compared"] = counters.get("grouping_vectors_compared", 0) + 1
            got_f = {k: canon(da[k]) for k in ("t", "u")}
            got_m = {k: canon(db[k]) for k in ("t", "u")}
            exp = {k: canon(v) for k, v in want.items()}
            if got_f != got_m or got_f != exp:
                violations.append({"what": "C13 grouping family %s at (a, b, c) = %r: function %s, manager %s, plain Python %s" % (
                    name, (a, b, c), got_f, got_m, exp), "source": ma.mk_fun("setter", a=ra["a"], b=ra["b"], c=ra["c"])})
                break


class Scaler:
    def __init__(self, k):
        self.k = k

    def scale(self, x):
        return x * self.k


def _double(x):
    return 2 * x


def _triple(x):
    return 3 * x


def _shift(x):
    return x - 7.5


def rebound_function_case(rng, counters, violations):
    """Function containers: the callable slot itself (fn['g']) or the object whose method is called (v['obj']) is a leaf
    reference like any other -- a setter generated for it must agree with assigning through the manager, and so must
    every later setter call."""
    import xdeps

    def build():
        m = xdeps.Manager()
        v = {"x": 1.0, "y": 0.0, "z": 0.0, "w": 0.0, "obj": Scaler(10.0)}
        fn = {"g": _double, "h": _shift}
        r, f = m.ref(v, "v"), m.ref(fn, "fn")
        r["y"] = f["g"](r["x"]) + 1
        r["z"] = r["obj"].scale(r["y"])
        r["w"] = f["h"](r["z"]) + f["g"](r["x"])
        return m, v, fn, r, f
    ma, va, fna, ra, fa = build()      # driven by generated setters
    mb, vb, fnb, rb, fb = build()      # driven by assignments through the manager
    steps = [("x", 2.0)]
    pool = [("g", _triple), ("x", 5.0), ("obj", Scaler(100.0)), ("h", _double), ("x", -3.0), ("g", _shift), ("obj", Scaler(0.5)), ("x", 0.25)]
    rng.shuffle(pool)
    steps += pool[:rng.randrange(4, 8)]
    setters = {}
    for what, val in steps:
        ref_a = fa[what] if what in ("g", "h") else ra[what]
        ref_b = fb[what] if what in ("g", "h") else rb[what]
        try:
            if what not in setters:
                setters[what] = ma.gen_fun("set_" + what, a=ref_a)
            setters[what](val)
            mb.set_value(ref_b, val)
        except Exception as exc:
            violations.append({"what": "C13 function containers: step %s raised %s: %s" % (what, type(exc).__name__, str(exc)[:200])})
            return
        counters["rebound_function_steps"] = counters.get("rebound_function_steps", 0) + 1
        sa = {k: canon(va[k]) for k in ("x", "y", "z", "w")}
        sb = {k: canon(vb[k]) for k in ("x", "y", "z", "w")}
        if sa != sb:
            violations.append({"what": "C13 function containers: after setting %s the generated setter leaves %s, assignment through the manager %s" % (
                what, sa, sb), "steps": [s_[0] for s_ in steps]})
            return


def run_shard(spec):
    import xdeps.refs as R
    import xdeps.tasks as T
    rng = random.Random("C13:%s:%s" % (spec["seed"], spec["shard"]))
    mgrmon.install_run_events()
    counters, digests, samples, violations, known = {}, set(), [], [], []
    W = {"define": 0.6, "leafval": 0.15, "val": 0.08, "iop": 0.1, "unreg": 0.05, "ftask": 0, "knob": 0, "replace": 0.02,
         "unreg_task": 0}
    if not spec.get("replay"):
        grouping_family(counters, digests, violations)
        for _ in range(30):
            if violations:
                break
            rebound_function_case(rng, counters, violations)
    for n in range(spec["managers"] if not spec.get("replay") else 30):
        hg = gen.HistoryGen(rng, layered=True, depth=rng.choice([2, 3, 4]), profile=PROFILE, weights=W)
        # one manager in three knows its containers by labels that are also names of the math module or short words a generated
        # source could bind itself (e, pi, tau, exp, log, pow, gamma, ...): labels are the user's choice
        if rng.random() < 0.34:
            names = rng.sample(["e", "pi", "tau", "exp", "log", "pow", "gamma", "dist", "prod", "sin", "cos", "fun", "self", "value", "args", "_", "x", "v"], 3)
            hg.world["label_names"] = dict(zip(("r", "a", "f"), names))
            counters["worlds_with_unusual_container_labels"] = counters.get("worlds_with_unusual_container_labels", 0) + 1
        ls = lockstep.LockStep(hg.world)
        ops = []
        bad = False
        for _ in range(rng.randrange(6, 24)):
            op, exp = hg.next_op()
            if op is None:
                break
            f = ls.step(op, exp)
            ops.append(op)
            if f:
                bad = True
                if not (f["kind"] == "mismatch" and kf.is_open("KF1", ID) and mgrmon.shadow_structural_cycle(hg.shadow, ls.runner)):
                    violations.append({"what": "C13 history (C01 oracle) failed: %s" % (f,), "world": hg.world, "ops": ops})
                break
        if bad or not hg.shadow.defs:
            continue
        real = ls.runner
        if mgrmon.shadow_structural_cycle(hg.shadow, real):
            counters["skipped_structural_cycle"] = counters.get("skipped_structural_cycle", 0) + 1
            continue
        twin = P.Runner(hg.world)
        for op in ops:
            twin.exec_op(op)
        # "leaf references" of the graph: locations without a definition (top-level leaves and nested members)
        leaves = [l for l in hg.locs if l["group"] == "leaf" or
                  (hg.shadow.ckey(l["path"]) not in hg.shadow.defs and l["kind"] == "float")]
        args = None
        stop = False
        for sub in range(rng.randrange(2, 5)):
            if sub and rng.random() < 0.7:
                # the history goes on between two generations, mostly REMOVING definitions (a plain value assigned to a
                # defined location, unregister); the next function is then often generated under the same name for the
                # same references: it must describe the definitions that exist now
                saved_w = hg.w
                hg.w = dict({k: 0 for k in saved_w}, val=0.55, unreg=0.3, leafval=0.15)
                for _ in range(rng.randrange(1, 4)):
                    op, exp = hg.next_op()
                    if op is None:
                        break
                    f = ls.step(op, exp)
                    ops.append(op)
                    if f:
                        stop = True
                        if not (f["kind"] == "mismatch" and kf.is_open("KF1", ID) and mgrmon.shadow_structural_cycle(hg.shadow, ls.runner)):
                            violations.append({"what": "C13 history (C01 oracle) failed: %s" % (f,), "world": hg.world, "ops": ops})
                        break
                    twin.exec_op(op)
                    counters["history_ops_between_generations"] = counters.get("history_ops_between_generations", 0) + 1
                hg.w = saved_w
                if stop or not hg.shadow.defs or mgrmon.shadow_structural_cycle(hg.shadow, real):
                    break
            if args is not None and sub and rng.random() < 0.6:
                counters["regenerated_for_the_same_references"] = counters.get("regenerated_for_the_same_references", 0) + 1
            else:
                args = rng.sample(leaves, rng.randrange(1, 5))
            names = ["a%d" % i for i in range(len(args))]
            kwargs = {nm: real.mkref(l["path"]) for nm, l in zip(names, args)}
            wit = {"world": hg.world, "ops": ops, "args": [l["path"] for l in args]}
            try:
                src = real.mgr.mk_fun("setter", **kwargs)
                fn = real.mgr.gen_fun("setter", **kwargs)
            except Exception as exc:
                violations.append(dict(wit, what="C13 mk_fun/gen_fun raised %s: %s" % (type(exc).__name__, str(exc)[:200])))
                break
            counters["programs"] = counters.get("programs", 0) + 1
            # another manager with the SAME container labels generates a function of its own before ours is called
            # (what a generated function writes to must be fixed when it is generated)
            try:
                twin.mgr.gen_fun("setter", **{nm: twin.mkref(l["path"]) for nm, l in zip(names, args)})
                counters["functions_generated_by_a_second_manager"] = counters.get("functions_generated_by_a_second_manager", 0) + 1
            except Exception as exc:
                violations.append(dict(wit, what="C13 gen_fun on the twin manager raised %s: %s" % (type(exc).__name__, str(exc)[:200])))
                break
            # ---- source check ---------------------------------------------------------------
            lines = [ln.strip() for ln in src.split("\n")[1:]]
            by_text = {str(t): tid for tid, t in real.mgr.tasks.items() if isinstance(t, T.ExprTask)}
            arg_lines = {"%s = %s" % (vref, nm) for nm, vref in kwargs.items()}
            listed = []
            problem = None
            # the source is read for what the property speaks about (the listed expression tasks); argument
            # assignments are recognised, any other statement is tolerated and counted (its EFFECT is judged by
            # the behavioural comparison below, not by its shape)
            for ln in lines:
                if ln in by_text:
                    listed.append(by_text[ln])
                elif ln in arg_lines:
                    if listed:
                        problem = "argument assignment %r after a task statement" % ln
                        break
                else:
                    counters["source_lines_not_recognised"] = counters.get("source_lines_not_recognised", 0) + 1
            counters["sources_checked"] = counters.get("sources_checked", 0) + 1
            if problem is None:
                if len(set(listed)) != len(listed):
                    problem = "a task is listed twice: %s" % [str(t) for t in listed if listed.count(t) > 1][:2]
            if problem is None:
                upper = set()
                for ref in kwargs.values():
                    upper |= c02.oracle_trigger(real.mgr, ref, R)
                info = mgrmon.writers_and_reads(hg.shadow, real)
                # lower bound: truly downstream of an argument location
                argck = [hg.shadow.ckey(l["path"]) for l in args]
                lower = set()
                for tid, (w, rd) in info.items():
                    clo = set()
                    for ck in w:
                        clo |= hg.shadow.true_reads_closure(ck)
                    if any(mgrmon._related(a, c) for a in argck for c in clo if c not in w):
                        lower.add(tid)
                if set(listed) - upper:
                    problem = "lists task(s) that do not depend on the arguments: %s" % sorted(map(str, set(listed) - upper))[:3]
                elif lower - set(listed):
                    problem = "omits task(s) downstream of the arguments: %s" % sorted(map(str, lower - set(listed)))[:3]
                else:
                    inv = mgrmon.inversions(listed, info)
                    if inv:
                        problem = "lists a consumer before its producer: %s" % [(str(a), str(b)) for a, b in inv[:2]]
            if problem:
                violations.append(dict(wit, what="C13 mk_fun source: " + problem, source=src))
                break
            # ---- behaviour on argument vectors ----------------------------------------------
            for vec in range(4):
                vals = []
                same = vec == 3 or rng.random() < 0.15
                for l in args:
                    v = rng.choice(l["choices"]) if "choices" in l else gen.leaf_value(rng, l["kind"])
                    if vec in (1, 2) and l["kind"] == "float":
                        # values on which the grouping / order of float operations is visible (rounding, absorption)
                        v = rng.choice(ROUNDING_SENSITIVE)
                    if same and "choices" not in l and l["kind"] in ("float", "int", "bool"):
                        # a value == to the one stored but of another type (2.0 -> 2, 1 -> True): assigning it through
                        # the manager replaces the stored object, so the generated function must do so too
                        v = hg.same_value_other_type(l, hg._cur(l))
                    vals.append(v)
                trial = hg.shadow.clone()
                z0 = trial.zero_divisions
                try:
                    for l, v in zip(args, vals):
                        trial.apply(["set", l["path"], ["v", enc(v)]])
                        exp = trial.all_expected()      # every intermediate state must be evaluable as well:
                        # the manager assigns the values one by one
                except Exception:
                    counters["vectors_discarded_python_raises"] = counters.get("vectors_discarded_python_raises", 0) + 1
                    continue
                if trial.zero_divisions != z0:
                    counters["vectors_discarded_zero_division"] = counters.get("vectors_discarded_zero_division", 0) + 1
                    continue
                hg.shadow = trial
                try:
                    fn(*vals)
                except Exception as exc:
                    violations.append(dict(wit, what="C13 generated function raised %s: %s" % (type(exc).__name__, str(exc)[:200]),
                                           source=src, values=[enc(v) for v in vals]))
                    break
                try:
                    for l, v in zip(args, vals):
                        twin.exec_op(["set", l["path"], ["v", enc(v)]])
                except Exception as exc:
                    violations.append(dict(wit, what="C13 assigning the values through the manager raised %s: %s although Python evaluates every "
                                                     "intermediate state" % (type(exc).__name__, str(exc)[:150]), values=[enc(v) for v in vals]))
                    break
                # keep the real manager's own bookkeeping in step (it was bypassed by the function): nothing to do,
                # expression tasks hold no state
                counters["argument_vectors_compared"] = counters.get("argument_vectors_compared", 0) + 1
                ca = {k: canon(v) for k, v in real.contents().items()}
                cb = {k: canon(v) for k, v in twin.contents().items()}
                want = {k: canon(v) for k, v in exp.items()}
                if ca != cb:
                    diff = [(k, ca.get(k), cb.get(k), want.get(k)) for k in cb if ca.get(k) != cb.get(k)]
                    violations.append(dict(wit, what="C13 function vs manager (function, manager, shadow): %s" % diff[:3],
                                           source=src, values=[enc(v) for v in vals]))
                    break
                if cb != want:
                    violations.append(dict(wit, what="C13 manager assignments disagree with the shadow (C01 oracle)"))
                    break
            else:
                if len(listed) >= 2:
                    digests.add(digest([hg.world, ops, [l["path"] for l in args]]))
                if len(samples) < 2 and len(listed) >= 3:
                    samples.append({"source": src.split("\n")[:8]})
                continue
            break
        if len(violations) >= 8:
            break
    counters["disagreements_checked"] = len(violations)
    return {"evaluations": counters.get("programs", 0), "digests": sorted(digests), "samples": samples,
            "counters": counters, "violations": violations[:12], "known": known}


TEXT = ("Translation validation: every generated setter function (~1 500 quick / ~150 000 thorough programs) is "
        "executed on up to 4 argument vectors and compared location by location with a twin manager receiving the "
        "same values by assignment (shadow as referee); every mk_fun source is parsed back and checked for "
        "exactly-once listing and dependency order. Each generated function is validated, the space of managers "
        "and argument vectors is sampled."
        ' Plus a directed grouping family (all operator pairs x both groupings on rounding-sensitive values) and a second manager with the same labels generating a function between generation and call.')
NOTE = ("Trusted: the twin replay of the history; the shadow pre-check that discards vectors on which Python divides "
        "by zero or raises; layered worlds (KF1 predicate as safety net).")
TECHNIQUE = "runtime monitoring as translation validation: each generated function executed and compared with the manager on a twin (paired execution) + offline check of the generated source against trigger/order oracles"
