"""C20 — results do not depend on the build (compiled or pure Python) or the hash seed.

Monitor: the same deterministic corpus of programs (assignment histories, expression terms, path
families, dumps, pickles -- the generators of C01-C06, C11, C12) is executed in one fresh process
per configuration {compiled, pure[, asan]} x PYTHONHASHSEED and the canonical transcripts are
compared across configurations; the ASan/UBSan build of the extension must produce no sanitizer
report and no crash.
"""
import hashlib
import json
import os
import pickle
import random

from vlib import containers as C
from vlib import gen, kf, lockstep, mgrmon
from vlib import programs as P
from vlib.shadow import Discard, Shadow
from vlib.values import canon, enc, zero_signs

ID = "C20"
LEVEL = "exploration"
DECIDING = ("configurations_compared", "programs_compared", "history_steps_transcribed")
RULE = ("one corpus per run: layered assignment histories (C01/C03 generator, expression / function / knob tasks, "
        "in-place ops, removals, container replacement), random expression terms evaluated on changing operands "
        "(C04), path families with ==/hash/dict behaviour (C06), dump text and text round trip (C11), pickle round "
        "trip (C12); every program runs in every configuration {compiled, pure} x hash seeds (+ the ASan/UBSan build); "
        "transcript = exception types, container contents after every step (type-tagged, hex floats, -0.0 written as "
        "0.0), dump() text, equality / hash-consistency booleans. Non-trivial = history with >= 3 definitions or term "
        "of depth >= 3; distinct = sha1 of the program.")
ASSUMPTIONS = [
    "programs come from the shadow-dry-run generators, so no evaluation error occurs; should an exception escape in the middle of a propagation, contents are not compared from that step on (only exception types and dump text), because a partial update legitimately depends on the schedule",
    "steps whose manager has a structural rtasks cycle are flagged by a configuration-independent predicate; differences confined to flagged programs are the open finding KF1",
    "hash VALUES are not compared (they legitimately depend on the seed), only equality / hash-consistency",
]
TIMEOUT = {"quick": 1200, "thorough": 7200}


def plan(tier, seed):
    if tier == "quick":
        cfgs = [("compiled", 0), ("compiled", 1), ("compiled", 2), ("pure", 0), ("pure", 1), ("pure", 2), ("asan", 0)]
        return [{"mode": m, "hashseed": h, "histories": 220, "terms": 700, "families": 3} for m, h in cfgs]
    cfgs = [(m, h) for m in ("compiled", "pure") for h in range(8)] + [("asan", 0), ("asan", 3), ("asan", 5)]
    return [{"mode": m, "hashseed": h, "histories": 3000, "terms": 12000, "families": 12} for m, h in cfgs]


def digest(obj):
    return hashlib.sha1(json.dumps(obj, sort_keys=True, default=repr).encode()).hexdigest()[:16]


def contents(runner):
    return sorted((k, canon(v)) for k, v in runner.contents().items())


def zero_sign_map(runner):
    return sorted((k, zero_signs(v)) for k, v in runner.contents().items() if zero_signs(v).strip(",|"))


def history_program(rng, counters):
    """Returns (program description, transcript, run-order digest, flagged, nontrivial)."""
    hg = gen.HistoryGen(rng, layered=True, depth=rng.choice([2, 3, 4]), profile="safe",
                        weights={"ftask": 0.03, "knob": 0.04, "load": 0.0})
    C.reset()
    runner = P.Runner(hg.world)
    tr = []
    runs = []
    ops = []
    signs = []
    partial = False
    for _ in range(rng.randrange(6, 28)):
        op, exp = hg.next_op()
        if op is None:
            break
        ops.append(op)
        del C.EVENTS[:]
        try:
            runner.exec_op(op)
            out = "ok"
        except Exception as exc:
            out = "E:" + type(exc).__name__
            if any(e[0] == "w" for e in C.EVENTS):
                partial = True
        runs.append([str(e[1]) for e in C.EVENTS if e[0] == "run"])
        counters["history_steps_transcribed"] = counters.get("history_steps_transcribed", 0) + 1
        tr.append([op[0], out, None if partial else contents(runner)])
        signs.append(zero_sign_map(runner))
    try:
        dm = runner.mgr.dump()
    except Exception as exc:
        dm = "E:" + type(exc).__name__
    tr.append(["dump", dm])
    # text round trip and pickle round trip of the final manager
    try:
        twin = P.Runner(P.world_from_runner(runner))
        twin.mgr.load([d for d in dm if "floor(" not in d[1] and "ceil(" not in d[1] and "trunc(" not in d[1]
                       and "inf" not in d[1] and "nan" not in d[1] and "==" not in d[1] and "!=" not in d[1]])
        tr.append(["reload-dump", sorted(map(list, twin.mgr.dump()))])
    except Exception as exc:
        tr.append(["reload-dump", "E:" + type(exc).__name__])
    if not hg.shadow.ftasks:
        try:
            m2 = pickle.loads(pickle.dumps(runner.mgr))
            tr.append(["pickle", sorted(map(list, m2.dump())), sorted(map(str, m2.tasks))])
        except Exception as exc:
            tr.append(["pickle", "E:" + type(exc).__name__])
    # a generated setter over 2-3 locations (expression-defined ones included) is one more manager operation whose
    # outcome must not depend on the build or the hash seed
    floats = [l for l in hg.locs if l["kind"] == "float"]
    defined = [l for l in floats if hg.shadow.ckey(l["path"]) in hg.shadow.defs]
    leaves = [l for l in floats if l["group"] == "leaf"]
    if len(defined) >= 2 and leaves and rng.random() < 0.8:
        # several arguments that are themselves expression-defined, plus a leaf most of them depend on
        picks = rng.sample(defined, min(len(defined), rng.randrange(2, 5))) + [rng.choice(leaves)]
    else:
        picks = rng.sample(floats, min(len(floats), rng.randrange(2, 4)))
    vals = [rng.choice([0.5, -1.5, 2.0, 7.0]) for _ in picks]
    if not hg.shadow.ftasks and not hg.shadow.knobs and not partial:
        try:
            fn = runner.mgr.gen_fun("setter", **{"a%d" % i: runner.mkref(l["path"]) for i, l in enumerate(picks)})
            fn(*vals)
            tr.append(["gen_fun", "ok", contents(runner)])
        except Exception:
            # (generated code uses plain Python arithmetic: a zero division or a floor()/ceil() text raises, and WHICH of
            #  several failing statements is met first depends on the valid order chosen; only the fact is recorded)
            tr.append(["gen_fun", "E"])
        counters["generated_setters_transcribed"] = counters.get("generated_setters_transcribed", 0) + 1
    flagged = mgrmon.shadow_structural_cycle(hg.shadow, runner)
    return [hg.world, ops], tr, digest(runs) + ":" + digest(signs), flagged, len(hg.shadow.defs) >= 3


def term_program(rng, counters):
    world, locs = gen.make_world(rng, True)
    sh = Shadow(world)
    tg = gen.TermGen(rng, "full")
    term = tg.deferred_term(locs, rng.randrange(1, 7))
    try:
        sh.guard_literals(term)
        sh.eval(term)
    except Discard:
        return None
    except Exception:
        pass
    runner = P.Runner(world)
    tr = []
    try:
        e = runner.build(term)
    except Exception as exc:
        return [world, term], [["build", "E:" + type(exc).__name__]], "", False, False
    tr.append(["text", str(e)])
    tr.append(["deps", sorted(map(str, e._get_dependencies())) if hasattr(e, "_get_dependencies") else None])
    for rnd in range(4):
        if rnd:
            l = rng.choice([x for x in locs if x["group"] == "leaf"])
            v = rng.choice(l["choices"]) if "choices" in l else gen.leaf_value(rng, l["kind"])
            op = ["set", l["path"], ["v", enc(v)]]
            try:
                sh.apply(op)
            except Exception:
                continue
            runner.exec_op(op)
        try:
            sh.eval(term)
            big = False
        except Discard:
            big = True
        except Exception:
            big = False
        if big:
            continue
        try:
            tr.append(["value", canon(e._get_value())])
        except Exception as exc:
            tr.append(["value", "E:" + type(exc).__name__])
    return [world, term], tr, "", False, P.term_depth(term) >= 3


def family_program(rng, counters):
    import xdeps
    from checks import c06
    paths = [c06.rand_path(rng) for _ in range(60)]
    paths += [(p[0], p[1][:-1] + ((p[1][-1][0], (p[1][-1][1],)),)) for p in paths[:10] if p[1][-1][0] == "i"]
    roots = []
    for _ in range(2):
        m = xdeps.Manager()
        roots.append({lab: m.ref({}, lab) for lab in ("r", "s", "ref_a")})

    def build(rt, p):
        x = rt[p[0]]
        for kind, key in p[1]:
            x = x[key] if kind == "i" else getattr(x, key)
        return x
    ra = [build(roots[0], p) for p in paths]
    rb = [build(roots[1], p) for p in paths]
    table = {}
    for i, x in enumerate(ra):
        table.setdefault(x, i)
    tr = [["text", [str(x) for x in ra]]]
    eq = [[int(a == b) for b in rb] for a in ra]
    hc = [[int(hash(a) == hash(b)) if a == b else -1 for b in rb] for a in ra]     # hash consistency where equal
    look = [table.get(b, -1) for b in rb]
    tr += [["eq", eq], ["hash-consistent-where-equal", hc], ["dict-lookup", look], ["set-size", len(set(ra))]]
    return [repr(paths)], tr, "", False, True


def exotic_key_program(rng, counters):
    """Item keys that are equal to an int without being one (2.0, numpy integers, bools): whatever the
    library does with them, it must do the same in every build."""
    import numpy as np
    import xdeps
    m = xdeps.Manager()
    d = {"k": 3.0, "j": 1.5, "tab": {1: 0.0, 2: 0.0, 3: 0.0}, "lst": [0.0, 0.0, 0.0, 0.0], "vec": np.zeros(4)}
    r = m.ref(d, "r")
    forms = {1: [1, 1.0, np.int64(1), True, np.float64(1.0)], 2: [2, 2.0, np.int32(2), np.int64(2)],
             3: [3, np.float64(3.0), np.int64(3), 3.0]}
    # one key form per slot and program: two different forms of the same slot are two distinct refs writing one
    # location (an ambiguous program whose outcome legitimately depends on the schedule)
    form = {(c, k): rng.choice([x for x in v if not (c == "vec" and x is True)])     # vec[True] is a numpy mask: all slots
            for c in ("tab", "lst", "vec") for k, v in forms.items()}
    tr, ops = [], []
    for _ in range(rng.randrange(4, 12)):
        cont = rng.choice(["tab", "lst", "vec"])
        key = form[(cont, rng.choice([1, 2, 3]))]
        what = rng.choice(["expr", "expr", "value", "read"])
        ops.append([cont, repr(key), what])
        try:
            if what == "expr":
                r[cont][key] = r["k"] * rng.choice([2, 3]) + r["j"]
            elif what == "value":
                r[cont][key] = rng.choice([7.0, -1.0])
            else:
                tr.append(["read", canon(r[cont][key]._get_value())])
            out = "ok"
        except Exception as exc:
            out = "E:" + type(exc).__name__
        if out != "ok":
            # the failing assignment itself is deterministic; everything after it is a partial update whose
            # content legitimately depends on the schedule (a poisoned task stays registered): stop here
            tr.append(["stopped-at-first-exception", out])
            break
        try:
            m.set_value(r["k"], rng.choice([10.0, -2.0, 0.5]))
        except Exception as exc:
            tr.append(["stopped-at-first-exception-in-propagation"])
            break
        tr.append([out, sorted((repr(k), canon(v)) for k, v in d["tab"].items()), [canon(v) for v in d["lst"]],
                   [canon(float(v)) for v in d["vec"]], sorted(map(list, m.dump())),
                   [str(r[c][kk]._expr) for c in ("tab", "lst") for kk in (1, 2, 3)]])
    return [ops], tr, "", False, True


def owner_reader_program(rng, counters):
    """Assignments to members of nested containers whose dependants include tasks reading the WHOLE
    container (dependency on the enclosing ref only) next to tasks reading the member: the start set of
    such an assignment holds several refs, so any order sensitivity shows up as a hash-seed dependence."""
    import xdeps
    pool = ["k%d" % i for i in range(12)] + ["alpha", "beta", "q.x", "mq1", "z", "long_name_%d" % rng.randrange(100)]
    keys = rng.sample(pool, 3)
    tnames = rng.sample(["s", "p", "q", "w", "sum_%d" % rng.randrange(50), "out", "t%d" % rng.randrange(9)], 4)
    m = xdeps.Manager()
    fbox = C.FnBox("f")
    d = {"d": {k: float(i + 1) for i, k in enumerate(keys)}, "lst": [1.0, 2.0, 3.0], "i": 1, "src": 2.0, "src2": -1.0}
    for t in tnames:
        d[t] = 0.0
    r = m.ref(d, "r")
    f = m.ref(fbox, "f")
    s_, p_, q_, w_ = tnames
    defs = [(s_, lambda: f.tot(r["d"])), (p_, lambda: r["d"][keys[0]] * 10 + r[s_]), (q_, lambda: r[p_] + r[s_] - r["lst"][r["i"]]),
            (w_, lambda: f.tot(r["lst"]) + r["lst"][0] * r[q_])]
    # members of the nested containers that are themselves written by tasks (nested targets), defined before or after
    # the tasks that read their container as a whole
    nested = [(("d", keys[1]), lambda: r["src"] * 10), (("lst", 2), lambda: r["src2"] - r["src"])]
    defs = [(n_, mk) for n_, mk in defs] + [(path, mk) for path, mk in nested if rng.random() < 0.8]
    rng.shuffle(defs)
    tr = []
    for name, mk in defs:
        if isinstance(name, tuple):
            r[name[0]][name[1]] = mk()
        else:
            r[name] = mk()
    for step in range(rng.randrange(3, 8)):
        which = rng.random()
        v = rng.choice([5.0, -1.0, 2.5, 0.5, 7.0])
        if which < 0.3:
            r["d"][rng.choice([keys[0], keys[2]])] = v
        elif which < 0.5:
            r["lst"][rng.randrange(2)] = v
        elif which < 0.85:
            r[rng.choice(["src", "src2"])] = v
        else:
            r["i"] = rng.randrange(3)
        tr.append(sorted((k, canon(x)) for k, x in d.items() if not isinstance(x, (dict, list))))
    tr.append(sorted(map(list, m.dump())))
    return [keys, tnames], tr, "", False, True


def late_reader_program(rng, counters):
    """Several tasks write members of ONE nested container; some of them are redefined or removed while nothing reads
    the container yet; only then are readers of the whole container registered, which share inputs with the remaining
    writers.  Which of two tasks triggered by the same assignment runs first is then decided by the ordering graph
    alone (it must not be left to the iteration order of a set of refs)."""
    import xdeps
    pool = ["k%d" % i for i in range(12)] + ["alpha", "beta", "q.x", "mq1", "z", "y", "long_name_%d" % rng.randrange(100)]
    keys = rng.sample(pool, 4)
    names = rng.sample(["s", "p", "w", "sum_%d" % rng.randrange(50), "out", "t%d" % rng.randrange(9), "total", "x1"], 3)
    srcs = rng.sample(["src", "x", "in_%d" % rng.randrange(30), "a", "knob", "v0"], 2)
    cname = rng.choice(["d", "box", "elems", "c%d" % rng.randrange(20)])
    m = xdeps.Manager()
    fbox = C.FnBox("f")
    d = {cname: {k: float(i + 1) for i, k in enumerate(keys)}, srcs[0]: 2.0, srcs[1]: -1.0}
    for t in names:
        d[t] = 0.0
    r = m.ref(d, "r")
    f = m.ref(fbox, "f")
    box = r[cname]
    tr = []

    def do(what, fn_):
        # (an operation that raises is part of the transcript: the same exception is expected in every configuration)
        try:
            fn_()
        except Exception as exc:
            tr.append(["E", what, type(exc).__name__])
    writers = [(keys[0], lambda: r[srcs[0]] * 10), (keys[1], lambda: r[srcs[1]] - r[srcs[0]]), (keys[2], lambda: r[srcs[0]] + r[srcs[1]] * 2)]
    rng.shuffle(writers)
    for k, mk in writers:
        do("define", lambda: box.__setitem__(k, mk()))
    # churn while nobody reads the container or its members
    for _ in range(rng.randrange(1, 4)):
        k, mk = rng.choice(writers)
        how = rng.random()
        if how < 0.4:
            v_ = rng.choice([3.0, -2.0, 0.5])
            do("value", lambda: box.__setitem__(k, v_))          # the definition is replaced by a plain value
        elif how < 0.8:
            c_ = rng.choice([0, 1])
            do("redefine", lambda: box.__setitem__(k, mk() + c_))
        elif box[k] in m.tasks:
            do("unregister", lambda: m.unregister(box[k]))
    readers = [(names[0], lambda: f.tot(box) + r[srcs[0]]), (names[1], lambda: box[keys[3]] + f.tot(box) * r[srcs[1]]),
               (names[2], lambda: r[names[0]] - box[keys[0]])]
    rng.shuffle(readers)
    for nme, mk in readers[:rng.randrange(1, 4)]:
        do("reader", lambda: r.__setitem__(nme, mk()))
    for step in range(rng.randrange(3, 7)):
        which = rng.random()
        v = rng.choice([5.0, -1.0, 2.5, 0.5, 7.0])
        if which < 0.7:
            s_ = rng.choice(srcs)
            do("assign", lambda: r.__setitem__(s_, v))
        else:
            do("assign", lambda: box.__setitem__(keys[3], v))
        tr.append(sorted((k, canon(x)) for k, x in d.items() if not isinstance(x, (dict, list))) + sorted((k, canon(x)) for k, x in d[cname].items()))
    tr.append(sorted(map(list, m.dump())))
    return [keys, names, srcs, cname], tr, "", False, True


def load_program(rng, counters):
    """Dumps as scripts produce them: concatenations of dump lists that SHARE definitions (exact duplicate pairs) and
    disagree on others (two right-hand sides for one target), loaded in one load() call with overwrite on / off, pairs
    given as tuples or lists; then dump(), the task order, run_tasks() and assignments.  Everything is part of the transcript."""
    import xdeps
    m = xdeps.Manager()
    d = {"a": 1.5, "b": -2.0, "c": 0.5}
    d.update({"k%d" % i: 0.0 for i in range(6)})
    r = m.ref(d, "r")
    forms = ["(r['%s'] + r['%s'])", "(r['%s'] * r['%s'])", "(r['%s'] - 2 * r['%s'])", "(3 * r['%s'] + r['%s'] ** 2)"]

    def pair(i):
        srcs = ["a", "b", "c"] + ["k%d" % j for j in range(i)]
        return ("r['k%d']" % i, rng.choice(forms) % (rng.choice(srcs), rng.choice(srcs)))
    dump_a = [pair(i) for i in rng.sample(range(6), rng.randrange(2, 6))]
    dump_b = [p for p in dump_a if rng.random() < 0.5]                      # shared definitions: exact duplicates
    dump_b += [pair(int(p[0][4])) for p in dump_a if rng.random() < 0.4]     # other definitions of the same targets
    dump_b += [pair(i) for i in rng.sample(range(6), rng.randrange(0, 3))]
    rng.shuffle(dump_b)
    pairs = dump_a + dump_b
    if rng.random() < 0.5:
        pairs = [list(p) for p in pairs]
    overwrite = rng.random() < 0.6
    tr = []
    pre = rng.random() < 0.3
    if pre:
        r["k0"] = r["a"] * 7                                     # an existing definition met by the load
    try:
        m.load(pairs, overwrite=overwrite)
        tr.append(["load", "ok"])
    except Exception as exc:
        tr.append(["load", "E:" + type(exc).__name__])
    tr.append(["dump", [list(x) for x in m.dump()]])
    tr.append(["tasks", [str(t) for t in m.tasks]])
    for step in (("run_tasks",), ("set", "a", 3.0), ("set", "b", 0.25), ("set", "k5", 9.0)):
        try:
            if step[0] == "run_tasks":
                m.run_tasks()
            else:
                r[step[1]] = step[2]
            out = "ok"
        except Exception as exc:
            out = "E:" + type(exc).__name__
        tr.append([list(step), out, sorted((k, canon(v)) for k, v in d.items())])
    tr.append(["dump-after", [list(x) for x in m.dump()]])
    counters["load_programs_with_duplicate_pairs"] = counters.get("load_programs_with_duplicate_pairs", 0) + (1 if len(set(map(tuple, pairs))) < len(pairs) else 0)
    counters["load_programs_with_conflicting_pairs"] = counters.get("load_programs_with_conflicting_pairs", 0) + (
        1 if len({p[0] for p in pairs}) < len(set(map(tuple, pairs))) else 0)
    return [["load-program", pre, overwrite], [list(p) for p in pairs]], tr, digest([]), False, True


def copy_program(rng, counters):
    """copy_expr_from into a fresh manager over equivalent containers: definitions, contents under later assignments, and
    the dumped text of the receiving manager.  The second digest (middle field of the run digest) is the transcript with
    every dump / task list SORTED: it tells "only the order differs" (open finding KF8) from any other difference."""
    import xdeps
    def data():
        d = {"a": 1.5, "b": -2.0, "c": 0.5}
        d.update({"k%d" % i: 0.0 for i in range(6)})
        return d
    m, m2 = xdeps.Manager(), xdeps.Manager()
    d, d2 = data(), data()
    r, r2 = m.ref(d, "r"), m2.ref(d2, "r")
    order = rng.sample(range(6), rng.randrange(3, 7))
    defs = []
    for i in sorted(order):
        srcs = ["a", "b", "c"] + ["k%d" % j for j in sorted(order) if j < i]
        defs.append((i, rng.choice(["add", "mul", "mix"]), rng.choice(srcs), rng.choice(srcs)))
    rng.shuffle(defs)          # creation order is free; reads go to lower indices only
    for i, how, x, y in defs:
        r["k%d" % i] = {"add": lambda: r[x] + r[y], "mul": lambda: r[x] * r[y], "mix": lambda: 3 * r[x] - r[y] ** 2}[how]()
    tr, norm = [], []

    def rec(tag, val, sortable=False):
        tr.append([tag, val])
        norm.append([tag, sorted(val) if sortable else val])
    try:
        m2.copy_expr_from(m, "r")
        rec("copy", "ok")
    except Exception as exc:
        rec("copy", "E:" + type(exc).__name__)
    rec("source-dump", [list(x) for x in m.dump()])
    rec("dump", [list(x) for x in m2.dump()], True)
    rec("tasks", [str(t) for t in m2.tasks], True)
    for key, val in (("a", 3.0), ("b", 0.25), ("c", -1.0)):
        for root in (r, r2):
            root[key] = val
        rec("set-" + key, [sorted((k, canon(v)) for k, v in d.items()), sorted((k, canon(v)) for k, v in d2.items())])
    rec("dump-after", [list(x) for x in m2.dump()], True)
    counters["copy_programs"] = counters.get("copy_programs", 0) + 1
    return [["copy-program"], [list(x) for x in defs]], tr, digest([]) + ":" + digest(norm) + ":" + digest([]), False, True


def run_shard(spec):
    rng = random.Random("C20:%s:corpus" % spec["seed"])      # identical corpus in every configuration
    mgrmon.install_run_events()
    counters = {}
    if spec["mode"] == "asan":
        maps = open("/proc/self/maps").read()
        if "libasan" not in maps or "libubsan" not in maps:
            raise RuntimeError("sanitizer runtime not loaded in the asan configuration: inconclusive")
        import xdeps.refs as R
        if not any("refs" in ln and ".so" in ln for ln in maps.splitlines()):
            raise RuntimeError("compiled refs extension not mapped in the asan configuration: inconclusive")
        counters["asan_runtime_loaded"] = 1
    progs = []       # (kind, digest of program, digest of transcript, run digest, flagged, nontrivial)
    transcripts = []
    samples = []
    n_hist, n_terms, n_fam = spec["histories"], spec["terms"], spec["families"]
    if spec.get("replay"):
        n_hist, n_terms, n_fam = 60, 200, 1
    for kind, n, fn in (("history", n_hist, history_program), ("term", n_terms, term_program), ("family", n_fam, family_program),
                        ("exotic-keys", max(20, n_hist // 4), exotic_key_program),
                        ("owner-readers", max(40, n_hist // 2), owner_reader_program),
                        ("late-readers", max(60, n_hist // 2), late_reader_program),
                        ("load-programs", max(60, n_hist // 2), load_program),
                        ("copy-programs", max(40, n_hist // 4), copy_program)):
        for i in range(n):
            sub = random.Random("C20:%s:%s:%d" % (spec["seed"], kind, i))     # per-program stream: robust to skips
            res = fn(sub, counters)
            if res is None:
                progs.append([kind, i, None, None, None, False, False])
                transcripts.append(None)
                continue
            prog, tr, rund, flagged, nontrivial = res
            progs.append([kind, i, digest(prog), digest(tr), rund, flagged, nontrivial])
            transcripts.append(tr)
            if len(samples) < 2 and kind == "history" and nontrivial and i > 3:
                samples.append({"kind": kind, "ops": prog[1][:8], "transcript_tail": tr[-3:]})
    counters["programs_executed"] = len(progs)
    path = os.path.join(os.path.dirname(os.environ["XDEPS_VERIF_OVERLAY"]), "c20-%s-%s.json" % (spec["mode"], spec["hashseed"]))
    with open(path, "w") as fh:
        json.dump(transcripts, fh, default=repr)
    return {"evaluations": len(progs), "digests": sorted({p[2] for p in progs if p[2] and p[6]}), "samples": samples,
            "counters": counters, "violations": [], "known": [], "programs": progs, "transcript_file": path,
            "refs_is_cythonized": spec["mode"] != "pure"}


def first_difference(a, b):
    if a is None or b is None:
        return "one side has no transcript"
    for i, (x, y) in enumerate(zip(a, b)):
        if x != y:
            if isinstance(x, list) and isinstance(y, list) and len(x) == len(y):
                for j, (u, v) in enumerate(zip(x, y)):
                    if u != v:
                        return "entry %d (%s) field %d: %s vs %s" % (i, x[0], j, json.dumps(u, default=repr)[:300], json.dumps(v, default=repr)[:300])
            return "entry %d: %s vs %s" % (i, json.dumps(x, default=repr)[:300], json.dumps(y, default=repr)[:300])
    return "lengths %d vs %d" % (len(a), len(b))


def merge(results, tier, seed):
    out = {"counters": {}, "violations": [], "known": []}
    if len(results) < 2:
        return out
    base_spec, base = results[0]
    cfg = lambda s: "%s/seed%s" % (s["mode"], s["hashseed"])
    n = len(base["programs"])
    out["counters"]["configurations_compared"] = len(results)
    out["configurations"] = [cfg(s) for s, _ in results]
    differing_runorders = 0
    nviol = 0
    for i in range(n):
        row = [(s, r["programs"][i] if i < len(r["programs"]) else None) for s, r in results]
        if any(p is None for _, p in row):
            out["violations"].append({"what": "C20 program %d missing in a configuration" % i})
            continue
        if len({p[2] for _, p in row}) > 1:
            out["violations"].append({"what": "C20 harness: program %d was GENERATED differently in %s (generator not deterministic)" % (
                i, [cfg(s) for s, p in row if p[2] != row[0][1][2]][:3])})
            continue
        out["counters"]["programs_compared"] = out["counters"].get("programs_compared", 0) + 1
        if len({str(p[4]).split(":")[0] for s, p in row if s["mode"] == row[0][0]["mode"]}) > 1:
            differing_runorders += 1
        if len({str(p[4]).split(":")[-1] for s, p in row}) > 1 and len({p[3] for _, p in row}) == 1:
            out["counters"]["programs_differing_only_in_the_sign_of_a_zero"] = \
                out["counters"].get("programs_differing_only_in_the_sign_of_a_zero", 0) + 1
        if len({p[3] for _, p in row}) > 1:
            if row[0][1][0] == "copy-programs" and kf.is_open("KF8", ID) and len({str(p[4]).split(":")[1] for _, p in row}) == 1:
                # the transcripts with every dump / task list sorted are identical: only the ORDER of the receiving manager's
                # definitions differs between hash seeds
                out["known"].append(kf.known("KF8"))
                out["counters"]["kf8_programs"] = out["counters"].get("kf8_programs", 0) + 1
                continue
            flagged = any(p[5] for _, p in row)
            if flagged and kf.is_open("KF1", ID):
                out["known"].append(kf.known("KF1"))
                continue
            nviol += 1
            if nviol <= 8:
                other = next((s, r) for (s, r) in results if r["programs"][i][3] != base["programs"][i][3])
                try:
                    ta = json.load(open(base["transcript_file"]))[i]
                    tb = json.load(open(other[1]["transcript_file"]))[i]
                    diff = first_difference(ta, tb)
                except Exception as exc:
                    diff = "(transcripts unavailable: %s)" % exc
                groups = {}
                for s, p in row:
                    groups.setdefault(p[3], []).append(cfg(s))
                out["violations"].append({"what": "C20 %s program %d gives different transcripts: %s; first difference %s vs %s: %s" % (
                    row[0][1][0], row[0][1][1], list(groups.values()), cfg(base_spec), cfg(other[0]), diff),
                    "program_kind": row[0][1][0], "program_index": row[0][1][1], "groups": groups})
    out["counters"]["programs_with_hash_seed_dependent_run_order_but_equal_transcripts"] = differing_runorders
    return out


TEXT = ("Held on every program observed: ~920 (quick) / ~15 000 (thorough) programs, each executed in 6+1 (quick) / 16+3 "
        "(thorough) configurations (build x PYTHONHASHSEED, one process each) with identical canonical transcripts; the "
        "evidence counts programs whose internal run order differed between hash seeds while the transcript stayed "
        "equal; the ASan+UBSan build ran the same corpus with zero sanitizer reports. A clean sanitizer run is not "
        "memory safety (red-zone tools miss intra-object overflows)."
        ' Load programs (concatenated dumps with shared and conflicting pairs, overwrite on/off) are part of the corpus.'
        ' Copy programs (copy_expr_from into a fresh manager) are part of the corpus; their hash-seed dependent definition ORDER is the open finding KF8, any other difference a violation.')
NOTE = ("Trusted: determinism of the generators (verified: a program generated differently in two configurations is "
        "reported as a harness failure); canonical transcript encoding. Leak detection is off (CPython arenas).")
TECHNIQUE = "runtime monitoring: cross-configuration transcript comparison (build x hash seed, one process per configuration) + ASan/UBSan build of the Cython extension running the same corpus"
