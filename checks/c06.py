"""C06 — references are equal, and hash equally, exactly when they denote the same path.

Monitor: all-pairs comparison of independently built refs against the generator's own path
descriptors (label + typed steps).  Each path is built twice, in two different managers.
"""
import keyword
import random

from vlib import gen
from vlib import programs as P
from vlib.driver import digest
from vlib.shadow import Shadow

ID = "C06"
LEVEL = "exploration"
DECIDING = ("pairs_compared", "dict_lookups", "expression_pairs")
RULE = ("families of 150-400 access paths of depth 1-4 mixing item and attribute steps, keys from hostile strings "
        "(quotes, brackets, dots, unicode, text that looks like another path), ints, negative ints, non-integral "
        "floats and tuples; every path built twice in two distinct managers; ALL ordered pairs compared (==, hash, "
        "dict/set membership) with the descriptor relation; collision families of 20 000-100 000 similar keys in one "
        "dict; structurally identical expression pairs from the random tree generator. Non-trivial pair = two "
        "different descriptors or two independent builds of the same descriptor; distinct = sha1 of the family.")
ASSUMPTIONS = [
    "descriptor equality is type-aware on keys; bools and integral floats are not used as keys (1 == 1.0 == True in Python)",
    "hash collisions between different paths are counted, not violations; a family must still show >= 99.9% distinct hashes",
]
TIMEOUT = {"quick": 600, "thorough": 3600}

HOSTILE = ["a", "b", "ab", "a b", "", " ", "a'b", 'a"b', "a']['b", "x].y", "r['a']", "r.a", "a.b", "[0]", "0", "-1",
           "1.5", "(1, 2)", "('a',)", "é", "βeta", "\U0001F600", "a\\b", "a\nb", "a\tb", "None", "True",
           "'", '"', "'\"", "]", "[", "][", "a'].b", "k", "_", "__class__", "lambda", "bend0", "bend00", "bend1"]


def plan(tier, seed):
    if tier == "quick":
        return [{"mode": "compiled", "hashseed": 0, "families": 2, "size": 160, "collide": 20000, "exprs": 400},
                {"mode": "pure", "hashseed": 1, "families": 2, "size": 130, "collide": 20000, "exprs": 300}]
    return [{"mode": "compiled" if i % 2 == 0 else "pure", "hashseed": i % 8, "families": 6, "size": 400,
             "collide": 100000, "exprs": 3000} for i in range(16)]


# attribute names given as strings (getattr): ASCII ones and pairs of DIFFERENT identifiers that Unicode normalisation
# (NFKC) would fold together (micro sign / Greek mu, ohm sign / Omega, ligature fi / "fi", composed / decomposed e-acute)
ATTR_NAMES = ["p", "q", "a", "b", "x", "_y", "data", "k", "p", "q", "a", "b",
              "\u00b5_x", "\u03bc_x", "\u2126", "\u03a9", "\ufb01", "fi", "\u00e9", "e\u0301"]


def rand_key(rng, depth=0):
    x = rng.random()
    if x < 0.45:
        return rng.choice(HOSTILE) if rng.random() < 0.8 else "".join(rng.choice("ab'\"].[ ") for _ in range(rng.randrange(1, 5)))
    if x < 0.65:
        return rng.randrange(0, 6)
    if x < 0.75:
        return -rng.randrange(1, 5)
    if x < 0.85:
        return rng.choice([0.5, -1.5, 2.25, 1e-3, 1e300, -0.1])
    if depth < 2:
        return tuple(rand_key(rng, depth + 1) for _ in range(rng.randrange(0, 3)))
    return rng.randrange(3)


def tkey(k):
    """Type-aware key identity."""
    if isinstance(k, tuple):
        return ("tuple",) + tuple(tkey(x) for x in k)
    return (type(k).__name__, k)


def rand_path(rng):
    label = rng.choice(["r", "r", "s", "ref_a"])
    steps = []
    for _ in range(rng.randrange(1, 5)):
        if rng.random() < 0.7:
            steps.append(("i", rand_key(rng)))
        else:
            steps.append(("a", rng.choice(ATTR_NAMES)))
    return (label, tuple(steps))


def desc_id(p):
    return (p[0], tuple((k, tkey(v)) if k == "i" else (k, v) for k, v in p[1]))


def run_shard(spec):
    import xdeps
    import xdeps.refs as R
    rng = random.Random("C06:%s:%s" % (spec["seed"], spec["shard"]))
    counters, digests, samples, violations = {}, set(), [], []

    def managers():
        out = []
        for _ in range(2):
            m = xdeps.Manager()
            out.append({lab: m.ref({}, lab) for lab in ("r", "s", "ref_a")})
        return out

    def build(roots, p):
        x = roots[p[0]]
        for kind, key in p[1]:
            x = x[key] if kind == "i" else getattr(x, key)
        return x

    def evaluable(x):
        try:
            x._get_value()
            return True
        except Exception:
            return False

    def compare_family(paths, ra, rb):
        """All ordered pairs of one family; returns True if a violation was recorded."""
        ids = [desc_id(p) for p in paths]
        table = {}
        for i, x in enumerate(ra):
            table.setdefault(x, i)
        first = {}
        for i, d in enumerate(ids):
            first.setdefault(d, i)
        n = len(paths)
        hashes = {}
        for i in range(n):
            hashes.setdefault(hash(ra[i]), set()).add(ids[i])
            for j in range(n):
                same = ids[i] == ids[j]
                a, b = ra[i], rb[j]
                counters["pairs_compared"] = counters.get("pairs_compared", 0) + 1
                eq = (a == b)
                if eq is not True and eq is not False:
                    violations.append({"what": "C06 == between refs returned %r" % (eq,), "paths": [repr(paths[i]), repr(paths[j])]})
                    break
                if eq != same or (a != b) == same:
                    violations.append({"what": "C06 refs %s (mgr A) and %s (mgr B): same path=%s but ==%s" % (a, b, same, eq),
                                       "paths": [repr(paths[i]), repr(paths[j])]})
                    break
                if same and hash(a) != hash(b):
                    violations.append({"what": "C06 equal refs %s hash differently in two managers" % a, "paths": [repr(paths[i])]})
                    break
            else:
                # dict / set membership through the independently built twin
                counters["dict_lookups"] = counters.get("dict_lookups", 0) + 1
                hit = table.get(rb[i], None)
                if hit != first[ids[i]]:
                    violations.append({"what": "C06 dict lookup with an independently built %s selected entry %r, expected %r" % (
                        rb[i], hit, first[ids[i]]), "paths": [repr(paths[i])]})
                if (rb[i] in set(ra)) is not True:
                    violations.append({"what": "C06 set membership of %s failed" % rb[i], "paths": [repr(paths[i])]})
                continue
            break
        counters["hash_collisions_between_different_paths"] = counters.get("hash_collisions_between_different_paths", 0) + \
            sum(len(v) - 1 for v in hashes.values())
        counters["families"] = counters.get("families", 0) + 1
        counters["distinct_paths"] = counters.get("distinct_paths", 0) + len(set(ids))
        digests.add(digest([repr(p) for p in paths[:50]]))
        if len(samples) < 2:
            samples.append({"paths": [str(x) for x in ra[:8]], "family_size": n})
        return bool(violations)

    for fam in range(spec["families"]):
        base = [rand_path(rng) for _ in range(spec["size"])]
        # near-duplicates: same path with one step changed in kind or key type
        extra = []
        for p in base[:spec["size"] // 4]:
            steps = list(p[1])
            j = rng.randrange(len(steps))
            kind, key = steps[j]
            if kind == "a":
                steps[j] = ("i", key)
            elif isinstance(key, str) and key.isidentifier() and not key.startswith("_") and not keyword.iskeyword(key):
                steps[j] = ("a", key)
            elif isinstance(key, int):
                steps[j] = ("i", str(key))
            else:
                steps[j] = ("i", repr(key))
            extra.append((p[0], tuple(steps)))
        # keys that print alike: k vs (k,), tuple vs its text, number vs its text
        for p in base[:spec["size"] // 3]:
            steps = list(p[1])
            items = [j for j, (kind, key) in enumerate(steps) if kind == "i"]
            if not items:
                continue
            j = rng.choice(items)
            key = steps[j][1]
            variants = [(key,), ((key,),), repr(key), str(key)]
            if isinstance(key, tuple):
                variants += [", ".join(map(repr, key)), list(key) and key[0], key + key[:1]]
            for v in variants:
                try:
                    hash(v)
                except TypeError:
                    continue
                st = list(steps)
                st[j] = ("i", v)
                extra.append((p[0], tuple(st)))
        paths = base + extra
        ma, mb = managers()
        ra = [build(ma, p) for p in paths]
        rb = [build(mb, p) for p in paths]
        if compare_family(paths, ra, rb):
            break
    # ---- the same relation over POPULATED containers whose contents differ between the two managers
    # (what a path denotes does not depend on what the containers hold when the ref is built)
    class Obj:
        pass

    def populated(lens):
        m = xdeps.Manager()
        o = Obj()
        o.p = [0.5] * lens[3]
        o.q = {"v": [1.5] * lens[4]}
        data = {"v": [1.0] * lens[0], "w": tuple([2.0] * lens[1]),
                "n": {"v": [3.0] * lens[2], -1: 7.0, 2: 8.0, "w": (1.0, 2.0)}, "o": o, 0: [4.0] * lens[5]}
        return {"r": m.ref(data, "r"), "s": m.ref({"v": [1.0] * lens[1]}, "s")}, data

    def rand_pop_path(rng):
        steps = []
        for _ in range(rng.randrange(1, 5)):
            x = rng.random()
            if x < 0.4:
                steps.append(("i", rng.choice(["v", "w", "n", "o", 0])))
            elif x < 0.85:
                steps.append(("i", rng.randrange(-5, 6)))
            else:
                steps.append(("a", rng.choice(["p", "q"])))
        return (rng.choice(["r", "r", "r", "s"]), tuple(steps))

    for fam in range(spec["families"]):
        paths = list({rand_pop_path(rng) for _ in range(spec["size"])})
        paths.sort(key=repr)
        rng.shuffle(paths)
        (ma, da), (mb, db) = populated([rng.randrange(1, 6) for _ in range(6)]), populated([rng.randrange(1, 6) for _ in range(6)])
        ra = [build(ma, p) for p in paths]
        da["v"].append(9.0)           # contents change between building the two sets of refs
        rb = [build(mb, p) for p in paths]
        rc = [build(ma, p) for p in paths]
        counters["populated_families"] = counters.get("populated_families", 0) + 1
        counters["populated_paths_evaluable"] = counters.get("populated_paths_evaluable", 0) + sum(1 for x in ra if evaluable(x))
        if compare_family(paths, ra, rb) or compare_family(paths, ra, rc):
            break
    # ---- keys / operands that are NOT hashable (lists, dicts, sets, arrays; a tuple holding one) ------------------
    # Such a reference either cannot be built (TypeError: today's behaviour, nothing to compare) or, if an implementation
    # builds it, two independently built references with equal but distinct key objects obey the same relation.
    import copy as _copy
    import numpy as _np
    unh = [[0, 2], [1], [], {"a": 1}, {1, 2}, ("k", [0]), _np.array([0, 1])]
    ma, mb = managers()
    for key in unh:
        for depth in (1, 2, 3):
            for tail in ((), (("a", "q"),), (("i", 3),)):
                pa = []
                for roots in (ma, mb, ma):
                    try:
                        x = roots["r"]
                        for _ in range(depth - 1):
                            x = x["n"]
                        x = x[_copy.deepcopy(key)]
                        for kind, k2 in tail:
                            x = x[k2] if kind == "i" else getattr(x, k2)
                        pa.append(x)
                    except TypeError:
                        pa.append(None)
                counters["unhashable_key_paths"] = counters.get("unhashable_key_paths", 0) + 1
                if any(x is None for x in pa):
                    if not all(x is None for x in pa):
                        violations.append({"what": "C06 a reference with the unhashable key %r could be built %s times out of 3" % (key, sum(x is not None for x in pa))})
                    counters["unhashable_key_paths_refused"] = counters.get("unhashable_key_paths_refused", 0) + 1
                    continue
                a, b, c = pa
                try:
                    ok = (a == b) is True and hash(a) == hash(b) and {a: 1}.get(b) == 1 and (a == c) is True and hash(a) == hash(c) and (c in {a})
                except Exception as exc:
                    ok = False
                if not ok:
                    violations.append({"what": "C06 references %s built independently over the same path with equal (distinct) unhashable key objects %r: "
                                               "==%s, equal hashes %s, same dict entry %s" % (a, key, a == b, hash(a) == hash(b), {a: 1}.get(b) == 1)})
                    break
    # the same for expression operands and call arguments
    for opnd in ([1, 2], {"a": 1}, _np.array([1.0, 2.0])):
        built = []
        for roots in (ma, mb):
            try:
                built.append((roots["r"]["v"] * _copy.deepcopy(opnd), roots["r"]["f"](roots["r"]["v"], _copy.deepcopy(opnd))))
            except TypeError:
                built.append(None)
        counters["unhashable_operand_cases"] = counters.get("unhashable_operand_cases", 0) + 1
        if built[0] is None or built[1] is None:
            if (built[0] is None) != (built[1] is None):
                violations.append({"what": "C06 an expression with the unhashable operand %r could be built in one manager only" % (opnd,)})
            continue
        for a, b in zip(*built):
            try:
                eq = bool(a == b)
            except Exception:
                eq = False
            if eq and hash(a) != hash(b):
                violations.append({"what": "C06 expressions %s of identical structure built twice (equal, distinct unhashable operand %r) are == but hash differently" % (a, opnd)})
    # ---- short-lived temporaries ----------------------------------------------------------------
    # A ref is built, used (printed, compared, hashed, looked up) and dropped; the next ref built -- which CPython
    # typically places at the address just freed -- denotes a DIFFERENT path whose hash collides with the dropped
    # one (hash(-1) == hash(-2), hash(k) == hash(k + 2**61 - 1)).  What a ref equals must not depend on what an
    # earlier object at the same address was.
    M61 = 2 ** 61 - 1
    colliding = [(-1, -2), (-2, -1), (0, M61), (5, 5 + M61), (-7, -7 - M61), (M61, 0)]
    ma, mb = managers()
    uses = ("str", "repr", "eq", "hash", "dict", "all")
    for trial in range(spec.get("temporaries", 1500)):
        k1, k2 = rng.choice(colliding)
        pre = rand_path(rng)
        pre = (pre[0], pre[1][:rng.randrange(0, 3)])
        suf = tuple(rand_path(rng)[1][:rng.randrange(0, 2)])
        p1 = (pre[0], pre[1] + (("i", k1),) + suf)
        p2 = (pre[0], pre[1] + (("i", k2),) + suf)
        held1, held2 = build(mb, p1), build(mb, p2)
        if hash(held1) == hash(held2):
            counters["temporaries_with_colliding_hashes"] = counters.get("temporaries_with_colliding_hashes", 0) + 1
        use = uses[trial % len(uses)]
        t = build(ma, p1)
        addr = id(t)
        if use in ("str", "all"):
            str(t)
        if use in ("repr", "all"):
            repr(t)
        if use in ("eq", "all"):
            t == held1, t == held2
        if use in ("hash", "all"):
            hash(t)
        if use in ("dict", "all"):
            {held1: 1, held2: 2}.get(t)
        del t
        u = build(ma, p2)
        if id(u) == addr:
            counters["temporaries_rebuilt_at_the_freed_address"] = counters.get("temporaries_rebuilt_at_the_freed_address", 0) + 1
        counters["temporaries_checked"] = counters.get("temporaries_checked", 0) + 1
        counters["pairs_compared"] = counters.get("pairs_compared", 0) + 2
        counters["dict_lookups"] = counters.get("dict_lookups", 0) + 1
        issues = []
        if (u == held2) is not True or (held2 == u) is not True or (u != held2) is not False:
            issues.append("does not equal an independently built ref of the same path")
        if (u == held1) is not False or (held1 == u) is not False:
            issues.append("equals a ref of the different path %s" % held1)
        if hash(u) != hash(held2):
            issues.append("hashes differently from an independently built ref of the same path")
        if {held1: 1, held2: 2}.get(u) != 2:
            issues.append("selects entry %r in {%s: 1, %s: 2}" % ({held1: 1, held2: 2}.get(u), held1, held2))
        if {u: 3}.get(held2) != 3 or {u: 3}.get(held1) is not None:
            issues.append("as a dict key it is found by %s: %r, by %s: %r" % (held2, {u: 3}.get(held2), held1, {u: 3}.get(held1)))
        if issues:
            violations.append({"what": "C06 a ref to %s built right after a temporary ref to %s was used (%s) and dropped: %s" % (
                held2, held1, use, "; ".join(issues)), "paths": [repr(p1), repr(p2)]})
            if len(violations) >= 5:
                break
        del u
    # ---- collision families -------------------------------------------------------------------
    for prefix, mk in (("bend", lambda i: "bend%d" % i), ("int", lambda i: i - 5000), ("tuple", lambda i: (i // 300, i % 300)),
                       ("nested", lambda i: "q%d" % i)):
        ma, mb = managers()
        n = spec["collide"]
        dct = {}
        hs = set()
        for i in range(n):
            x = ma["r"][mk(i)] if prefix != "nested" else ma["r"]["e"][mk(i)].k1
            dct[x] = i
            hs.add(hash(x))
        bad = 0
        for i in rng.sample(range(n), min(n, 5000)):
            y = mb["r"][mk(i)] if prefix != "nested" else mb["r"]["e"][mk(i)].k1
            counters["dict_lookups"] = counters.get("dict_lookups", 0) + 1
            if dct.get(y) != i:
                bad += 1
        counters["collision_family_keys"] = counters.get("collision_family_keys", 0) + n
        counters["collision_family_distinct_hashes"] = counters.get("collision_family_distinct_hashes", 0) + len(hs)
        digests.add(digest(["family", prefix, n]))
        if len(dct) != n or bad:
            violations.append({"what": "C06 family %s: %d entries for %d distinct keys, %d wrong lookups" % (prefix, len(dct), n, bad)})
        if len(hs) < 0.999 * n:
            violations.append({"what": "C06 family %s: only %d distinct hashes for %d distinct paths" % (prefix, len(hs), n)})
    # ---- structurally identical expressions ---------------------------------------------------
    for t in range(spec["exprs"]):
        world, locs = gen.make_world(rng, True)
        ra_, rb_ = P.Runner(world), P.Runner(world)
        tg = gen.TermGen(rng, "full")
        term = tg.deferred_term(locs, rng.randrange(1, 6))
        try:
            _sh = Shadow(world)
            _sh.guard_literals(term)
            _sh.eval(term)
        except Exception as exc:
            if type(exc).__name__ == "Discard":
                continue
        try:
            ea, eb = ra_.build(term), rb_.build(term)
        except Exception:
            counters["expr_python_rejects_at_build"] = counters.get("expr_python_rejects_at_build", 0) + 1
            continue
        counters["expression_pairs"] = counters.get("expression_pairs", 0) + 1
        if not (ea == eb) or hash(ea) != hash(eb) or {ea: 1}.get(eb) != 1:
            violations.append({"what": "C06 structurally identical expressions differ: %s vs %s (== %s, hashes %s/%s)" % (
                ea, eb, ea == eb, hash(ea), hash(eb)), "term": term})
            break
        term2 = tg.deferred_term(locs, rng.randrange(1, 6))
        try:
            ec = rb_.build(term2)
            if str(ec) != str(ea) and ea == ec:
                violations.append({"what": "C06 different expressions compare equal: %s vs %s" % (ea, ec)})
                break
        except Exception:
            pass
        digests.add(digest(term))
    return {"evaluations": counters.get("pairs_compared", 0) + counters.get("expression_pairs", 0) + counters.get("dict_lookups", 0),
            "digests": sorted(digests), "samples": samples, "counters": counters, "violations": violations[:10], "known": []}


TEXT = ("Held on every pair observed: ~2*10^5 (quick) / ~2.5*10^7 (thorough) ordered pairs of independently built "
        "refs (two managers) compared with the descriptor relation for ==, hash and dict/set membership, collision "
        "families up to 10^5 keys, and structurally identical expression pairs. All pairs WITHIN each sampled family "
        "are covered; the families themselves are sampled."
        ' Plus families over POPULATED containers whose contents differ between the two managers and change between the two builds (what a path denotes does not depend on the data). Plus short-lived temporaries: a ref is used and dropped and the next ref, built at the freed address for a different path with a colliding hash, is compared with independently built refs.'
        ' Unhashable keys / operands (lists, dicts, sets, arrays): refused, or the same relation holds for independently built references.')
NOTE = "Trusted: the generator's descriptors (label + typed steps) as ground truth for 'same access path'."
TECHNIQUE = "runtime monitoring: all-pairs differential oracle over independently constructed refs (equality, hash, dict/set behaviour) against generator-side path identity"
