"""C03 — removing or replacing a definition leaves no trace (history independence).

Monitors: (M4) index-support invariant after every operation; verify() never raises; and a
twin FRESH manager holding only the surviving definitions, against which every query and a
sequence of follow-up assignments is compared.  refresh()/clone() must not change anything.
"""
import random

from vlib import containers as C
from vlib import gen, kf, lockstep, mgrmon
from vlib import programs as P
from vlib.driver import digest
from vlib.values import canon

ID = "C03"
LEVEL = "exploration"
DECIDING = ("index_invariant_checks", "twin_queries_compared", "twin_followups_compared")
RULE = ("layered histories biased to removal and re-definition (value over expression, unregister, re-definition "
        "with other dependencies, load with overwrite True/False, function tasks / knobs registered and removed, "
        "refresh / cleanup / verify at random points) over nested targets whose siblings and ancestors are read by "
        "other tasks. A history is non-trivial when >= 2 definitions were removed or replaced; distinct = sha1 of "
        "(world, ops).")
ASSUMPTIONS = [
    "index supports are derived from each task's public taskid/targets/dependencies",
    "the fresh twin is built over a copy of the current container contents, registering the surviving definitions in tasks order",
    "worlds are layered (no structural cycle), the KF1 predicate stays on as a safety net",
]
TIMEOUT = {"quick": 900, "thorough": 5400}


def plan(tier, seed):
    if tier == "quick":
        return [{"mode": "compiled", "hashseed": 0, "histories": 600, "churn": 1},
                {"mode": "compiled", "hashseed": 1, "histories": 600, "churn": 1},
                {"mode": "pure", "hashseed": 2, "histories": 600, "churn": 1},
                {"mode": "pure", "hashseed": 3, "histories": 600, "churn": 1}]
    return [{"mode": "compiled" if i % 2 == 0 else "pure", "hashseed": i % 8, "histories": 2500, "churn": 4} for i in range(32)]


def str_supports(mgr):
    return {n: {str(k): sorted(map(str, v)) for k, v in d.items()} for n, d in mgrmon.index_supports(mgr).items()}


def make_twin(runner, shadow, task_ops):
    """Fresh manager over a copy of the current contents with the surviving definitions only."""
    import xdeps.tasks as T
    tw = P.Runner(P.world_from_runner(runner))
    by_text = {str(runner.mkref(mgrmon.ck_to_path(ck))): ck for ck in shadow.defs}
    problems = []
    seen = set()
    for tid, task in runner.mgr.tasks.items():
        if isinstance(task, T.ExprTask):
            ck = by_text.get(str(tid))
            if ck is None:
                problems.append("manager holds a definition the history removed: %s = %s" % (tid, task.expr))
                continue
            seen.add(ck)
            tw.mgr.register(T.ExprTask(tw.mkref(mgrmon.ck_to_path(ck)), tw.build(shadow.defs[ck])))
        else:
            if tid not in task_ops:
                problems.append("manager holds a task the history removed: %s" % (tid,))
                continue
            seen.add(tid)
            tw.mgr.register(tw.make_task(task_ops[tid]))
            tw.named_tasks[tid] = tw.mgr.tasks[tid]
    for ck in shadow.defs:
        if ck not in seen:
            problems.append("surviving definition missing from the manager: %s" % shadow.ck_text(ck))
    for name in list(shadow.ftasks) + list(shadow.knobs):
        if name not in seen:
            problems.append("surviving task missing from the manager: %s" % name)
    return tw, problems


import re as _re
_NEG_ZERO = _re.compile(r"(?<![\w.])-0\.0(?![\w.])")


def unsigned_zero(text):
    return _NEG_ZERO.sub("0.0", text)


def compare_queries(real, twin, locs, counters):
    problems = []
    a, b = str_supports(real.mgr), str_supports(twin.mgr)
    for n in a:
        if a[n] != b[n]:
            keys = [k for k in set(a[n]) | set(b[n]) if a[n].get(k) != b[n].get(k)]
            problems.append("index %s differs from the fresh manager at %s: %s vs %s" % (
                n, keys[:2], [a[n].get(k) for k in keys[:2]], [b[n].get(k) for k in keys[:2]]))
    for l in locs:
        ra, rb = real.mkref(l["path"]), twin.mkref(l["path"])
        counters["twin_queries_compared"] = counters.get("twin_queries_compared", 0) + 3
        try:
            da, db = ra._find_dependant_targets(), rb._find_dependant_targets()
            if set(map(str, da)) != set(map(str, db)):
                problems.append("dependants of %s: %s vs fresh %s" % (ra, sorted(map(str, da)), sorted(map(str, db))))
            ta, tb = set(map(str, ra._tasks)), set(map(str, rb._tasks))
            if ta != tb:
                problems.append("tasks writing %s: %s vs fresh %s" % (ra, sorted(ta), sorted(tb)))
            # (a captured current value may be a zero whose SIGN differs between the compiled build and the shadow --
            #  the Cython signed-zero artefact of DESIGN 8.2; the sign of a literal zero is not compared)
            if unsigned_zero(str(ra._expr)) != unsigned_zero(str(rb._expr)):
                problems.append("expression of %s: %s vs fresh %s" % (ra, ra._expr, rb._expr))
        except Exception as exc:
            problems.append("query on %s raised %s: %s" % (ra, type(exc).__name__, str(exc)[:200]))
    for who, mgr in (("manager", real.mgr), ("fresh manager", twin.mgr)):
        try:
            mgr.verify()
        except Exception as exc:
            problems.append("verify() of the %s raised %s: %s" % (who, type(exc).__name__, str(exc)[:200]))
    return problems


STOP = object()


def followup(real, twin, op, counters):
    out = []
    for who, rn in (("real", real), ("twin", twin)):
        del C.EVENTS[:]
        try:
            rn.exec_op(op)
            exc = None
        except Exception as e:
            exc = type(e).__name__ + ": " + str(e)[:200]
        runs = sorted(str(e[1]) for e in C.EVENTS if e[0] == "run")
        out.append((exc and exc.split(":")[0], runs, {k: canon(v) for k, v in rn.contents().items()}, exc))
    counters["twin_followups_compared"] = counters.get("twin_followups_compared", 0) + 1
    (ea, ra, ca, xa), (eb, rb, cb, xb) = out
    if ea != eb:
        return "follow-up %s: real %s, fresh manager %s" % (op[0], xa or "returned", xb or "returned")
    if ea is not None:
        # both raised the same error while recomputing: which tasks ran before the raising one
        # depends on which valid order each manager chose, so neither the run sets nor the
        # partially updated contents are comparable; the follow-ups end here
        counters["followups_ended_by_same_exception_on_both"] = \
            counters.get("followups_ended_by_same_exception_on_both", 0) + 1
        return STOP
    if ra != rb:
        return "follow-up %s ran different tasks: real %s, fresh %s" % (op[0], ra, rb)
    if ca != cb:
        diff = [(k, ca.get(k), cb.get(k)) for k in set(ca) | set(cb) if ca.get(k) != cb.get(k)]
        return "follow-up %s left different contents: %s" % (op[0], diff[:3])
    return None


# arithmetic, comparisons, calls, nested computed keys, and LiteralExpr terms: some definitions read no location at all
# (tasks without dependencies)
PROFILE = frozenset(["keys", "litexpr"])
CHURN_WEIGHTS = {"define": 0.4, "leafval": 0.08, "val": 0.2, "iop": 0.05, "unreg": 0.2, "ftask": 0.03, "knob": 0.0,
                 "replace": 0.0, "unreg_task": 0.04, "load": 0.0, "refresh": 0.0, "cleanup": 0.0, "verify": 0.0}


def run_history(rng, counters, digests, samples, violations, known, nops, world_ops=None, churn=False):
    import xdeps.tasks as T
    replay = world_ops is not None
    if replay:
        world, ops_in = world_ops
        hg = gen.HistoryGen(rng, layered=True, profile=PROFILE, world=(world, []))
    else:
        hg = gen.HistoryGen(rng, layered=True, depth=rng.choice([2, 3]), profile=PROFILE,
                            weights=CHURN_WEIGHTS if churn else {"define": 0.34, "leafval": 0.12, "val": 0.14, "iop": 0.06, "unreg": 0.12,
                                     "ftask": 0.04, "knob": 0.03, "replace": 0.02, "unreg_task": 0.04,
                                     "load": 0.05, "refresh": 0.02, "cleanup": 0.02, "verify": 0.02})
    ls = lockstep.LockStep(hg.world)
    task_ops = {}
    removed = 0

    def report(what, **kw):
        violations.append(dict({"what": "C03 " + what, "world": hg.world, "ops": list(ls.ops)}, **kw))

    steps = range(len(ops_in)) if replay else range(nops)
    for step in steps:
        if replay:
            op = ops_in[step]
            hg.shadow.apply(op)
            exp = None if hg.shadow.stale else hg.shadow.all_expected()
        else:
            before = set(hg.shadow.defs)
            op, exp = hg.next_op()
            if op is None:
                break
            if hg.shadow.stale:
                exp = None
            if before - set(hg.shadow.defs) or op[0] in ("unreg", "unreg_task", "load") or \
                    (op[0] == "set" and hg.shadow.ckey(op[1]) in before):
                removed += 1
        if op[0] in ("ftask", "knob"):
            task_ops[op[1]] = op
        if op[0] == "unreg_task":
            task_ops.pop(op[1], None)
        f = ls.step(op, exp)
        counters["ops_" + op[0]] = counters.get("ops_" + op[0], 0) + 1
        if f:
            if f["kind"] == "exception" and hg.shadow.stale and f["exc_type"] != "KeyError":
                # values are no longer those of the shadow (load does not evaluate), so Python may
                # legitimately reject an operation the shadow accepted: the history ends here
                counters["histories_ended_by_evaluation_error_on_stale_values"] = \
                    counters.get("histories_ended_by_evaluation_error_on_stale_values", 0) + 1
                return
            if f["kind"] == "mismatch" and kf.is_open("KF1", ID) and \
                    kf.kf1(ls.runner.mgr, f["run_order"], hg.shadow, ls.runner)[0]:
                known.append(kf.known("KF1"))
            else:
                report("%s after %s: %s" % (f["kind"], op[0], f), failure=f)
            return
        bad = mgrmon.index_violations(ls.runner.mgr)
        counters["index_invariant_checks"] = counters.get("index_invariant_checks", 0) + 1
        if bad:
            report("index supports inconsistent after %s: %s" % (op[0], bad[:3]), index=bad[:6])
            return
    if churn:
        counters["churn_ops_total"] = counters.get("churn_ops_total", 0) + len(ls.ops)
        counters["churn_removals_max_in_one_history"] = max(counters.get("churn_removals_max_in_one_history", 0), removed)
    if mgrmon.shadow_structural_cycle(hg.shadow, ls.runner):
        counters["histories_skipped_structural_cycle"] = counters.get("histories_skipped_structural_cycle", 0) + 1
        return
    # ---- twin comparison ------------------------------------------------------------
    real = ls.runner
    twin, problems = make_twin(real, hg.shadow, task_ops)
    if not problems:
        problems = compare_queries(real, twin, hg.locs, counters)
    if problems:
        report("after the history: " + "; ".join(problems[:3]), problems=problems[:8])
        return
    # refresh / clone never change behaviour
    before = str_supports(real.mgr)
    which = rng.random()
    try:
        if which < 0.4:
            real.mgr.refresh()
            counters["refresh_checked"] = counters.get("refresh_checked", 0) + 1
            if str_supports(real.mgr) != before:
                report("refresh() changed the index supports")
                return
        elif which < 0.7:
            cl = real.mgr.clone()
            counters["clone_checked"] = counters.get("clone_checked", 0) + 1
            if str_supports(cl) != before:
                report("clone() has different index supports")
                return
    except Exception as exc:
        report("refresh/clone raised %s: %s" % (type(exc).__name__, exc))
        return
    # follow-up assignments on both
    fups = []
    for _ in range(rng.randrange(3, 9)):
        if replay:
            break
        op, _exp = hg.next_op()
        if op is None or op[0] in ("load", "refresh", "cleanup", "verify"):
            continue
        fups.append(op)
        why = followup(real, twin, op, counters)
        if why is STOP:
            return
        if why:
            report(why, followups=fups)
            return
        bad = mgrmon.index_violations(real.mgr)
        if bad:
            report("index supports inconsistent after follow-up %s: %s" % (op[0], bad[:3]), followups=fups)
            return
    counters["histories"] = counters.get("histories", 0) + 1
    if removed >= 2:
        digests.add(digest([hg.world, ls.ops]))
    if len(samples) < 2 and removed >= 2:
        samples.append({"ops": ls.ops[:12], "n_ops": len(ls.ops), "followups": fups[:3], "removed_or_replaced": removed})


def ref_named_task_case(rng, counters, violations):
    """A FunctionTask / LinearKnob may be identified by a reference (e.g. a knob named after its source).
    Assigning to that reference replaces the task it identifies, whatever that task writes: afterwards the
    manager must be indistinguishable from a fresh one holding only the surviving definitions."""
    import copy
    import xdeps
    import xdeps.tasks as T

    def data():
        return {"src": 1.0, "k": 2.0, "a": 0.5, "tar": [0.0, 0.0], "n": {"x": 1.0, "y": 2.0}, "out": 0.0}
    m = xdeps.Manager()
    d = data()
    r = m.ref(d, "r")
    r["out"] = r["a"] * 3 + r["n"]["y"]                       # an unrelated definition that must survive
    which = rng.choice(["source", "unrelated", "nested", "own-target"])
    idref = {"source": r["src"], "unrelated": r["k"], "nested": r["n"]["x"], "own-target": r["tar"][0]}[which]
    kind = rng.choice(["knob", "ftask"])
    if kind == "knob":
        task = T.LinearKnob(idref, r["src"], [1.0, -2.0], [r["tar"][0], r["tar"][1]])
    else:
        def action():
            r["tar"][1]._set_value(r["src"]._get_value() * 2 + r["a"]._get_value())
        task = T.FunctionTask(idref, action, targets=r["tar"][1]._get_dependencies() | ({idref} if which == "own-target" else set()),
                              dependencies=r["src"]._get_dependencies() | r["a"]._get_dependencies())
    m.register(task)
    assign = rng.choice(["expr", "value", "unregister"])
    wit = {"case": "ref-named %s (%s), then %s" % (kind, which, assign)}
    try:
        if assign == "expr":
            m.set_value(idref, r["a"] * 2 + 1)
        elif assign == "value":
            m.set_value(idref, 7.5)
        else:
            m.unregister(idref)
    except Exception as exc:
        violations.append(dict(wit, what="C03 %s raised %s: %s" % (wit["case"], type(exc).__name__, str(exc)[:200])))
        return
    counters["ref_named_task_cases"] = counters.get("ref_named_task_cases", 0) + 1
    # fresh manager with the surviving definitions only
    m2 = xdeps.Manager()
    d2 = copy.deepcopy(d)
    r2 = m2.ref(d2, "r")
    m2.register(T.ExprTask(r2["out"], r2["a"] * 3 + r2["n"]["y"]))
    idref2 = {"source": r2["src"], "unrelated": r2["k"], "nested": r2["n"]["x"], "own-target": r2["tar"][0]}[which]
    if assign == "expr":
        m2.register(T.ExprTask(idref2, r2["a"] * 2 + 1))
    problems = []
    bad = mgrmon.index_violations(m)
    if bad:
        problems.append("index supports inconsistent: %s" % bad[:3])
    if str_supports(m) != str_supports(m2):
        sa, sb = str_supports(m), str_supports(m2)
        problems.append("index supports differ from the fresh manager: %s" % (
            [(n_, k, sa[n_].get(k), sb[n_].get(k)) for n_ in sa for k in set(sa[n_]) | set(sb[n_]) if sa[n_].get(k) != sb[n_].get(k)][:3],))
    if sorted(map(str, m.tasks)) != sorted(map(str, m2.tasks)):
        problems.append("tasks %s, fresh manager %s" % (sorted(map(str, m.tasks)), sorted(map(str, m2.tasks))))
    for who, mm in (("manager with the history", m), ("fresh manager", m2)):
        try:
            mm.verify()
        except Exception as exc:
            problems.append("verify() of the %s raised: %s" % (who, str(exc)[:120]))
    if not problems:
        for key, val in (("src", 5.0), ("a", 4.0), ("k", 3.0), ("src", 6.0), ("a", -1.0)):
            out = []
            for root in (r, r2):
                try:
                    root[key] = val
                    out.append(None)
                except Exception as exc:
                    out.append(type(exc).__name__)
            counters["twin_followups_compared"] = counters.get("twin_followups_compared", 0) + 1
            if out[0] != out[1] or {k: canon(v) for k, v in d.items()} != {k: canon(v) for k, v in d2.items()}:
                problems.append("after r[%r] = %r: %s / %s vs fresh %s" % (key, val, out, d, d2))
                break
    if problems:
        violations.append(dict(wit, what="C03 %s: %s" % (wit["case"], "; ".join(problems[:3]))))


def lookalike_redefinition_case(rng, counters, violations):
    """An expression is replaced by ANOTHER expression that prints the same (constants of different types whose text
    coincides: 3 / Fraction(3), 0.5 / Decimal('0.5') / numpy.float32(0.5), 3 / numpy.int64(3); callees of the same name),
    or by the very same expression again.  Afterwards the manager answers and reacts like a fresh one holding only the
    surviving definition -- by value AND type."""
    import copy
    import decimal
    import fractions
    import numpy as np
    import xdeps
    import xdeps.tasks as T
    pairs = [(3, fractions.Fraction(3)), (fractions.Fraction(3), 3), (decimal.Decimal("0.5"), 0.5), (0.5, decimal.Decimal("0.5")),
             (np.float32(0.5), 0.5), (0.5, np.float32(0.5)), (3, np.int64(3)), (np.int64(3), 3), (np.float64(0.25), 0.25), (2, 2), (0.5, 0.25),
             (np.array([1, 2]), np.array([1.0, 2.0]).astype(int) * 1.0)]
    k1, k2 = rng.choice(pairs)
    form = rng.choice(["mul", "add", "radd", "pow", "nested"])
    where = rng.choice(["flat", "nested"])

    def build(root, k):
        a = root["a"]
        if form == "mul":
            return a * k
        if form == "add":
            return a + k
        if form == "radd":
            return k + a
        if form == "pow":
            return a ** 2 * k
        return (a + root["b"]) * k - root["b"]

    def data():
        return {"a": 2, "b": 4, "c": 0, "n": {"c": 0}, "z": 0}
    m = xdeps.Manager()
    d = data()
    r = m.ref(d, "r")
    tgt = (lambda root: root["c"]) if where == "flat" else (lambda root: root["n"]["c"])
    wit = {"case": "c = %s with constant %r (%s), re-assigned with %r (%s), %s target" % (form, k1, type(k1).__name__, k2, type(k2).__name__, where)}
    try:
        e1, e2 = build(r, k1), build(r, k2)
        e1._get_value(), e2._get_value()
    except Exception:
        counters["lookalike_cases_skipped"] = counters.get("lookalike_cases_skipped", 0) + 1
        return
    try:
        m.set_value(tgt(r), e1)
        r["z"] = tgt(r) + 1                                     # a dependant of the re-defined location
        if rng.random() < 0.5:
            r["a"] = 3                                          # the first definition is used once
        m.set_value(tgt(r), e2)
    except Exception as exc:
        violations.append(dict(wit, what="C03 %s raised %s: %s" % (wit["case"], type(exc).__name__, str(exc)[:200])))
        return
    counters["lookalike_redefinitions"] = counters.get("lookalike_redefinitions", 0) + 1
    if str(e1) == str(e2) and not (type(k1) is type(k2)):
        counters["lookalike_redefinitions_same_text_other_type"] = counters.get("lookalike_redefinitions_same_text_other_type", 0) + 1
    m2 = xdeps.Manager()
    d2 = data()
    d2["a"] = d["a"]
    r2 = m2.ref(d2, "r")
    m2.set_value(tgt(r2), build(r2, k2))
    r2["z"] = tgt(r2) + 1
    problems = []
    bad = mgrmon.index_violations(m)
    if bad:
        problems.append("index supports inconsistent: %s" % bad[:3])
    if str_supports(m) != str_supports(m2):
        problems.append("index supports differ from the fresh manager")
    # the current expression of the location, compared by typed structure
    def typed(e):
        import xdeps.refs as R
        if isinstance(e, R.MutableRef):          # a location: any attribute access on it builds a new reference
            return (type(e).__name__, str(e))
        if isinstance(e, R.BinOpExpr):
            return (type(e).__name__, typed(e._lhs), typed(e._rhs))
        if isinstance(e, R.BaseRef):
            arg = e._arg if isinstance(e, (R.UnaryOpExpr, R.BuiltinRef)) else None
            return (type(e).__name__, str(e), typed(arg) if arg is not None else None)
        return (type(e).__name__, canon(e))
    if typed(tgt(r)._expr) != typed(tgt(r2)._expr):
        problems.append("current expression of the location is %s, in the fresh manager %s" % (typed(tgt(r)._expr), typed(tgt(r2)._expr)))
    if not problems:
        for key, val in (("a", 5), ("b", 7), ("a", -1), ("a", 2)):
            for root in (r, r2):
                root[key] = val
            counters["twin_followups_compared"] = counters.get("twin_followups_compared", 0) + 1
            ca, cb = {k: canon(v) for k, v in d.items()}, {k: canon(v) for k, v in d2.items()}
            if ca != cb:
                problems.append("after r[%r] = %r: %s, fresh manager %s" % (key, val, {k: ca[k] for k in ca if ca[k] != cb[k]}, {k: cb[k] for k in ca if ca[k] != cb[k]}))
                break
    if problems:
        violations.append(dict(wit, what="C03 %s: %s" % (wit["case"], "; ".join(problems[:3]))))


def reregister_case(rng, counters, violations):
    """A task is REPLACED by registering another task (or the same task object again) under the same task id, and
    possibly unregistered afterwards: the manager must then be indistinguishable from a fresh one in which only the
    surviving task was registered (once)."""
    import xdeps
    import xdeps.tasks as T

    def data():
        return {"a": 1.0, "b": 2.0, "x": 0.0, "y": 0.0, "n": {"p": 0.0, "q": 0.0}, "e": 0.0}

    def mk(root, d, name, dep, tgt):
        tref = {"x": root["x"], "y": root["y"], "p": root["n"]["p"], "q": root["n"]["q"]}[tgt]
        dref = root[dep]

        def action():
            tref._set_value(dref._get_value() * 10 + 1)
        return T.FunctionTask(name, action, targets={tref}, dependencies={dref})

    variant = rng.choice(["same-object-twice", "other-task-same-id", "other-task-same-id", "knob-same-id"])
    dep1, dep2 = rng.choice([("a", "b"), ("a", "a"), ("b", "a")])
    tg1, tg2 = rng.choice([("x", "y"), ("x", "x"), ("p", "q"), ("p", "x"), ("y", "p")])
    then_unreg = rng.random() < 0.5
    wit = {"case": "%s (deps %s->%s, targets %s->%s)%s" % (variant, dep1, dep2, tg1, tg2, ", then unregister" if then_unreg else "")}
    m, m2 = xdeps.Manager(), xdeps.Manager()
    d, d2 = data(), data()
    r, r2 = m.ref(d, "r"), m2.ref(d2, "r")
    for root in (r, r2):
        root["e"] = root["a"] + root["b"] + root["x"] + root["n"]["p"]          # an unrelated definition that must survive
    try:
        if variant == "same-object-twice":
            t = mk(r, d, "T", dep1, tg1)
            m.register(t)
            m.register(t)
            m2.register(mk(r2, d2, "T", dep1, tg1))
        elif variant == "knob-same-id":
            m.register(T.LinearKnob("T", r[dep1], [2.0], [r[tg1] if tg1 in "xy" else r["n"][tg1]]))
            m.register(T.LinearKnob("T", r[dep2], [3.0], [r[tg2] if tg2 in "xy" else r["n"][tg2]]))
            m2.register(T.LinearKnob("T", r2[dep2], [3.0], [r2[tg2] if tg2 in "xy" else r2["n"][tg2]]))
        else:
            m.register(mk(r, d, "T", dep1, tg1))
            m.register(mk(r, d, "T", dep2, tg2))
            m2.register(mk(r2, d2, "T", dep2, tg2))
        if then_unreg:
            m.unregister("T")
            m2.unregister("T")
    except Exception as exc:
        violations.append(dict(wit, what="C03 task replaced by registering under the same id, %s: raised %s: %s" % (wit["case"], type(exc).__name__, str(exc)[:200])))
        return
    counters["reregister_cases"] = counters.get("reregister_cases", 0) + 1
    problems = []
    bad = mgrmon.index_violations(m)
    if bad:
        problems.append("index supports inconsistent with the registered tasks: %s" % bad[:3])
    if str_supports(m) != str_supports(m2):
        sa, sb = str_supports(m), str_supports(m2)
        problems.append("index supports differ from the fresh manager: %s" % (
            [(n_, k, sa[n_].get(k), sb[n_].get(k)) for n_ in sa for k in set(sa[n_]) | set(sb[n_]) if sa[n_].get(k) != sb[n_].get(k)][:3],))
    for who, mm in (("manager with the history", m), ("fresh manager", m2)):
        try:
            mm.verify()
        except Exception as exc:
            problems.append("verify() of the %s raised: %s" % (who, str(exc)[:120]))
    if not problems:
        mgrmon_events = []
        for key, val in (("a", 5.0), ("b", 4.0), ("a", 3.0), ("b", -1.0)):
            out = []
            for root in (r, r2):
                try:
                    root[key] = val
                    out.append(None)
                except Exception as exc:
                    out.append("%s: %s" % (type(exc).__name__, str(exc)[:60]))
            counters["twin_followups_compared"] = counters.get("twin_followups_compared", 0) + 1
            if out[0] != out[1] or {k: canon(v) for k, v in d.items()} != {k: canon(v) for k, v in d2.items()}:
                problems.append("after r[%r] = %r: %s, contents %s vs fresh manager %s" % (key, val, out, d, d2))
                break
    if problems:
        violations.append(dict(wit, what="C03 task replaced by registering under the same id, %s: %s" % (wit["case"], "; ".join(problems[:3]))))


def run_shard(spec):
    rng = random.Random("C03:%s:%s" % (spec["seed"], spec["shard"]))
    mgrmon.install_reach_counters()
    mgrmon.install_run_events()
    mgrmon.install_toposort(None, contract_every=1)
    counters, digests, samples, violations, known = {}, set(), [], [], []
    if spec.get("replay"):
        wit = spec["replay"]
        run_history(rng, counters, digests, samples, violations, known, 0, (wit["world"], wit["ops"]))
        return {"evaluations": 1, "digests": [], "samples": [], "counters": counters, "violations": violations, "known": known}
    if spec["shard"] == 0:
        from checks import c01
        for name in ("F02-unregister-stale-rtasks",):
            run_history(rng, counters, digests, samples, violations, known, 0, (c01.witness_world(), c01.REGRESSIONS[name]))
            counters["regression_cases"] = counters.get("regression_cases", 0) + 1
    for h in range(60 if not spec.get("replay") else 0):
        if violations:
            break
        ref_named_task_case(rng, counters, violations)
    for h in range(150 if not spec.get("replay") else 0):
        if violations:
            break
        lookalike_redefinition_case(rng, counters, violations)
    for h in range(80 if not spec.get("replay") else 0):
        if violations:
            break
        reregister_case(rng, counters, violations)
    for h in range(spec["histories"]):
        mgrmon.set_shuffle_rng(random.Random(rng.random()) if rng.random() < 0.5 else None)
        run_history(rng, counters, digests, samples, violations, known, rng.randrange(6, 28))
        if len(violations) >= 5:
            break
    # long histories on one manager: hundreds of definitions made and removed again without any refresh()
    # (state that accumulates over many removals)
    for h in range(spec.get("churn", 0)):
        if len(violations) >= 5:
            break
        mgrmon.set_shuffle_rng(None)
        run_history(rng, counters, digests, samples, violations, known, rng.randrange(1100, 1600), churn=True)
        counters["churn_histories"] = counters.get("churn_histories", 0) + 1
    counters.update({"monitor_" + k: v for k, v in mgrmon.COUNTS.items()})
    counters["anchors_reached"] = dict(mgrmon.REACH)
    counters["queries_checked_read_only"] = lockstep.STATS.get("queries_checked", 0)
    return {"evaluations": counters.get("histories", 0), "digests": sorted(digests), "samples": samples,
            "counters": counters, "violations": violations, "known": known}


TEXT = ("Held on every history observed: the index-support invariant is evaluated after each of ~15 000 (quick) / "
        "~1.3 million (thorough) operations, and at the end of every history all queries, verify(), refresh/clone "
        "and 3-8 follow-up assignments are compared with a fresh manager that holds only the surviving "
        "definitions. Exploration over sampled histories."
        ' Plus long churn histories (1100-1600 operations on one manager, ~600 removals, no refresh) for state that accumulates over many removals.'
        " Directed families: tasks identified by a reference, re-definitions that print like the definition they replace (3 / Fraction(3), 0.5 / Decimal('0.5') / float32(0.5)) compared by typed structure, and tasks replaced by registering under an existing id (defect F23).")
NOTE = ("Trusted: derivation of the index supports from public task attributes; the twin construction (copy of the "
        "current contents + registration of the surviving definitions in tasks order); the generator's record of "
        "which definitions survive.")
TECHNIQUE = "runtime monitoring: invariant at every operation boundary (index supports vs derivation) + twin fresh-manager execution compared on queries and follow-up assignments"
