"""C14 — every Table the API produces is rectangular and leaves its source untouched.

Monitor: an invariant computed from the raw _data/_col_names of EVERY live table after EVERY
operation (listed columns present, one common length == len(table), index column listed, scalar
entries carried over), snapshots of the source taken immediately before and compared immediately
after each derivation, and an element-wise numpy oracle for column expressions.
"""
import random

import numpy as np

from vlib.driver import digest

ID = "C14"
LEVEL = "exploration"
DECIDING = ("invariant_checks", "derivations_with_source_snapshot", "column_expressions_compared")
RULE = ("random chains (<= 14 ops) starting from checked-constructor tables with 0-7 rows and float / int / "
        "string / object / 2-D columns and scalar entries; operations: rows[...] with every selector form and "
        "pairs, cols[...] by list and by string, _select(rows, cols), +, * k (k >= 1), Table.concatenate, _copy, "
        "_t, head/tail/reverse, column and cell assignments and new columns on ANY live table, column expressions "
        "over existing names. A chain is non-trivial when >= 3 derivations succeeded; distinct = sha1 of the op log.")
ASSUMPTIONS = [
    "cols[...] is only given names of real columns (asking for a scalar entry as a column is a caller error)",
    "an operation that raises produces no table: counted per kind, not a violation, but the source must still be intact",
    "cell-level sharing of numpy buffers between a table and a slice-derived table is numpy view semantics, not checked",
]
TIMEOUT = {"quick": 600, "thorough": 3600}
NAMES = ["a", "b", "ab", "c", "mq1", "mq2"]


def plan(tier, seed):
    if tier == "quick":
        return [{"mode": "pure", "hashseed": h, "chains": 4000} for h in (0, 1, 2, 3)]
    return [{"mode": "pure", "hashseed": i % 8, "chains": 12000} for i in range(16)]


SHADOWING_NAMES = ["power", "sign", "mod", "exp", "log", "square", "floor", "hypot", "np", "pi", "sin"]


def new_table(rng):
    from xdeps import Table
    n = rng.choice([0, 1, 2, 3, 4, 5, 7])
    data = {"name": np.array([rng.choice(NAMES) for _ in range(n)], dtype=object),
            "x": np.array([rng.choice([0.5, 1.0, 2.5, -1.0]) for _ in range(n)], dtype=float),
            "i": np.arange(n, dtype=int) * 2,
            "s": np.array([rng.choice(["u", "v", "w"]) for _ in range(n)]),
            }
    if rng.random() < 0.5:
        o = np.empty(n, dtype=object)
        for j in range(n):
            o[j] = rng.choice([None, (1, 2), "txt", 3.5])
        data["o"] = o
    if rng.random() < 0.4:
        data["m"] = np.arange(2 * n, dtype=float).reshape(n, 2)
    if rng.random() < 0.35:
        # a column whose name is also the name of a helper available in column expressions (numpy functions, np):
        # inside an expression the name denotes the COLUMN
        data[rng.choice(SHADOWING_NAMES)] = np.array([rng.choice([0.5, 2.0, -1.5, 4.0]) for _ in range(n)], dtype=float)
    cols = list(data)
    if rng.random() < 0.7:
        data["energy"] = 7.0
        data["title"] = "abc"
        if rng.random() < 0.5:      # sized scalar entries whose length may coincide with the row count
            data["tune"] = (62.31, 60.32)
            data["notes"] = []
            data["label"] = "x" * n
    rng.shuffle(cols)
    return Table(data, col_names=cols, index="name")


def scalars_of(t):
    return {k: t._data[k] for k in t._data if k not in t._col_names}


def invariant(t, label):
    """Rectangularity computed from raw _data/_col_names."""
    cols = t._col_names
    if not isinstance(cols, list):
        return "%s: column list is %s" % (label, type(cols).__name__)
    if len(set(cols)) != len(cols):
        return "%s: column listed twice: %s" % (label, cols)
    for c in cols:
        if c not in t._data:
            return "%s: listed column %r missing from the data (columns %s, data keys %s)" % (label, c, cols, list(t._data))
    lens = {c: len(t._data[c]) for c in cols}
    if len(set(lens.values())) > 1:
        return "%s: columns of different lengths %s" % (label, lens)
    if cols and len(t) != next(iter(lens.values())):
        return "%s: len(table)=%d but columns have length %d" % (label, len(t), next(iter(lens.values())))
    if t._index is not None and t._index not in cols:
        return "%s: index column %r not among the columns %s" % (label, t._index, cols)
    return None


def snapshot(t):
    return {"cols": list(t._col_names), "len": len(t),
            "data": {k: (np.array(v, copy=True) if hasattr(v, "dtype") else v) for k, v in t._data.items()}}


def same_snapshot(a, b):
    if a["cols"] != b["cols"]:
        return "column list changed from %s to %s" % (a["cols"], b["cols"])
    if a["len"] != b["len"]:
        return "length changed from %d to %d" % (a["len"], b["len"])
    if set(a["data"]) != set(b["data"]):
        return "data keys changed from %s to %s" % (sorted(a["data"]), sorted(b["data"]))
    for k, v in a["data"].items():
        w = b["data"][k]
        if hasattr(v, "dtype"):
            if v.shape != w.shape or not all(x is y or x == y or (x != x and y != y) for x, y in zip(v.ravel().tolist(), w.ravel().tolist())):
                return "cell values of column %r changed" % k
        elif v != w:
            return "scalar entry %r changed" % k
    return None


def random_selector(rng, t):
    n = len(t)
    names = list(t._data["name"]) if "name" in t._data else []
    x = rng.random()
    if n == 0:
        return rng.choice([None, slice(None), ".*", [], slice(0, 0)])
    nm = rng.choice(names)
    if x < 0.15:
        return nm
    if x < 0.25:
        return rng.choice([".*", "a.*", "mq.*::0", "zz"])
    if x < 0.35:
        return slice(nm, rng.choice([None, rng.choice(names)]))
    if x < 0.5 and "x" in t._col_names:
        return slice(rng.choice([None, 0.5]), rng.choice([None, 2.5]), "x")
    if x < 0.65:
        return slice(rng.randrange(-n, n), rng.choice([None, rng.randrange(-n, n + 1)]), rng.choice([None, 1, 2, -1]))
    if x < 0.8:
        return sorted(rng.sample(range(n), rng.randrange(1, n + 1)))
    if x < 0.9:
        return [rng.random() < 0.5 for _ in range(n)]
    return rng.randrange(-n, n)


def sel_text(s):
    return "slice(%r,%r,%r)" % (s.start, s.stop, s.step) if isinstance(s, slice) else repr(s)


def run_chain(rng, counters, violations):
    from xdeps import Table
    live = [new_table(rng)]
    log = ["new %s rows=%d cols=%s" % (0, len(live[0]), live[0]._col_names)]
    derived_ok = 0

    side = []       # tables with another index column, lending their column lists as selectors

    def check_all(after):
        for t in side[-3:]:
            counters["invariant_checks"] = counters.get("invariant_checks", 0) + 1
            why = invariant(t, "the table (indexed by 's') whose column list was used as a selector")
            if why is None:
                try:
                    len(t), t.rows[:]
                except Exception as exc:
                    why = "the table (indexed by 's') whose column list was used as a selector can no longer be used: %s: %s" % (type(exc).__name__, exc)
            if why:
                violations.append({"what": "C14 after %s: %s" % (after, why), "log": list(log)})
                return False
        for j, t in enumerate(live):
            counters["invariant_checks"] = counters.get("invariant_checks", 0) + 1
            why = invariant(t, "table #%d" % j)
            if why:
                violations.append({"what": "C14 after %s: %s" % (after, why), "log": list(log)})
                return False
        return True

    if not check_all("construction"):
        return 0
    for step in range(rng.randrange(4, 15)):
        src_i = rng.randrange(len(live))
        src = live[src_i]
        kind = rng.choice(["rows", "rows2", "cols", "cols_str", "select", "add", "mul", "concat", "copy", "t", "head",
                           "tail", "reverse", "setcol", "newcol", "setcell", "new", "colexpr", "delcol", "pop", "neg",
                           "at", "iter", "badset", "ragged", "newentry", "cols_borrowed"])
        real_cols = [c for c in src._col_names]
        desc = kind
        snap = snapshot(src)
        snap2 = None
        out = None
        try:
            if kind == "rows":
                s = random_selector(rng, src)
                desc = "#%d.rows[%s]" % (src_i, sel_text(s))
                out = src.rows[s]
            elif kind == "rows2":
                s1 = random_selector(rng, src)
                s2 = rng.choice([".*", slice(None), slice(0, 2), slice(None, None, -1)])
                desc = "#%d.rows[%s, %s]" % (src_i, sel_text(s1), sel_text(s2))
                out = src.rows[s1, s2]
            elif kind == "cols":
                cs = rng.sample(real_cols, rng.randrange(1, len(real_cols) + 1))
                desc = "#%d.cols[%s]" % (src_i, cs)
                cs0 = list(cs)
                out = src.cols[cs]
                if cs != cs0:
                    violations.append({"what": "C14 %s modified the list it was given: now %s" % (desc, cs), "log": list(log)})
                    return derived_ok
            elif kind == "cols_borrowed":
                # "out of this table, the columns that other table has": the selector is the OTHER table's own column list
                # (cols.names); that table is indexed by another column and does not have this table's index column.
                # Afterwards both tables must still satisfy every clause and the selector must be what it was.
                pool = [c for c in real_cols if c != "name" and c != "s" and getattr(src._data[c], "ndim", 0) == 1]
                if "s" in real_cols and getattr(src._data["s"], "ndim", 0) == 1 and pool:
                    rc = rng.sample(pool, rng.randrange(1, len(pool) + 1))
                    rc.insert(rng.randrange(len(rc) + 1), "s")
                    other = Table({c: src._data[c].copy() for c in rc}, col_names=list(rc), index="s")
                    side.append(other)
                    sel = other.cols.names
                    before = list(sel)
                    desc = "#%d.cols[<table indexed by 's'>.cols.names = %s]" % (src_i, before)
                    out = src.cols[sel]
                    counters["column_selections_by_another_tables_column_list"] = counters.get("column_selections_by_another_tables_column_list", 0) + 1
                    if list(sel) != before:
                        violations.append({"what": "C14 %s modified the selector it was given (the other table's column list): now %s" % (desc, list(sel)),
                                           "log": list(log)})
                        return derived_ok
                    if sorted(out._col_names) != sorted(set(before) | {"name"}):
                        violations.append({"what": "C14 %s has columns %s" % (desc, out._col_names), "log": list(log)})
                        return derived_ok
            elif kind == "cols_str":
                cs = rng.sample([c for c in real_cols if c != "name"] or real_cols, 1)
                desc = "#%d.cols[%r]" % (src_i, " ".join(cs))
                out = src.cols[" ".join(cs)]
            elif kind == "select":
                s = rng.choice([None, random_selector(rng, src)])
                cs = rng.choice([None, None, rng.sample(real_cols, rng.randrange(1, len(real_cols) + 1))])
                desc = "#%d._select(%s, %s)" % (src_i, sel_text(s), cs)
                cs0 = None if cs is None else list(cs)
                out = src._select(s, cs)
                if cs != cs0:
                    violations.append({"what": "C14 %s modified the column list it was given: now %s" % (desc, cs), "log": list(log)})
                    return derived_ok
            elif kind == "add":
                others = [t for t in live if set(t._col_names) == set(src._col_names)]
                other = rng.choice(others)
                snap2 = (other, snapshot(other))
                desc = "#%d + #%d" % (src_i, live.index(other))
                out = src + other
            elif kind == "mul":
                k = rng.randrange(1, 4)
                desc = "#%d * %d" % (src_i, k)
                out = src * k
            elif kind == "concat":
                others = [t for t in live if set(t._col_names) == set(src._col_names) and "name" in t._col_names]
                parts = [src] + [rng.choice(others) for _ in range(rng.randrange(0, 3))] if others else [src]
                desc = "Table.concatenate(%s)" % [live.index(p) for p in parts]
                out = Table.concatenate(parts)
            elif kind == "copy":
                desc = "#%d._copy()" % src_i
                out = src._copy()
            elif kind == "t":
                desc = "#%d._t" % src_i
                out = src._t
            elif kind in ("head", "tail", "reverse"):
                desc = "#%d.rows.%s()" % (src_i, kind)
                out = getattr(src.rows, kind)(*([rng.randrange(0, 4)] if kind != "reverse" else []))
            elif kind == "setcol":
                c = rng.choice([c for c in real_cols if c in ("x", "i")] or ["x"])
                desc = "#%d[%r] = array" % (src_i, c)
                src[c] = np.arange(len(src), dtype=float) + 0.5
            elif kind == "newcol":
                c = "w%d" % step
                desc = "#%d[%r] = new column" % (src_i, c)
                src[c] = np.zeros(len(src))
            elif kind == "newentry":
                # a sized value whose length differs from the row count is a scalar ENTRY, never a column
                n_ = len(src)
                val = rng.choice([(1.0, 2.0, 3.0)[:(2 if n_ != 2 else 3)], [0.5] * (n_ + 1), "x" * (n_ + 2), np.arange(n_ + 1, dtype=float), 3.5])
                key_ = "e%d" % step
                desc = "#%d[%r] = %s (not a column)" % (src_i, key_, type(val).__name__)
                src[key_] = val
                if key_ in src._col_names:
                    violations.append({"what": "C14 %s: the entry became a listed column (row count %d)" % (desc, n_), "log": list(log)})
                    return derived_ok
            elif kind == "setcell":
                if len(src) and "x" in real_cols:
                    desc = "#%d['x', k] = v" % src_i
                    src["x", rng.randrange(len(src))] = 9.5
            elif kind == "delcol":
                ws = [c for c in real_cols if c.startswith("w")]
                if ws:
                    desc = "del #%d[%r]" % (src_i, ws[0])
                    del src[ws[0]]
            elif kind == "pop":
                ws = [c for c in real_cols if c.startswith("w")]
                if ws:
                    desc = "#%d.pop(%r)" % (src_i, ws[-1])
                    src.pop(ws[-1])
            elif kind == "append":
                if all(src._data[c].ndim == 1 for c in real_cols):
                    desc = "#%d._append_row(...)" % src_i
                    row = {c: (rng.choice(NAMES) if c == "name" else (src._data[c][0] if len(src) else
                                {"x": 1.5, "i": 4, "s": "u", "o": None}.get(c, 0.0))) for c in real_cols}
                    src._append_row(row)
            elif kind == "neg":
                desc = "-#%d" % src_i
                out = -src
            elif kind == "at":
                if len(src):
                    desc = "#%d.rows.at(k)" % src_i
                    k = rng.randrange(len(src))
                    rowt = src.rows.at(k)
                    rowd = src.rows.at(k, as_dict=True)
                    if list(rowd) != list(src._col_names) or len(rowt) != len(src._col_names):
                        violations.append({"what": "C14 rows.at(%d) has fields %s, the table lists %s" % (k, list(rowd), src._col_names), "log": list(log)})
                        return derived_ok
            elif kind == "iter":
                desc = "iterate #%d.rows" % src_i
                n_it = sum(1 for _ in src.rows)
                if n_it != len(src):
                    violations.append({"what": "C14 iterating rows yields %d rows, len(table) is %d" % (n_it, len(src)), "log": list(log)})
                    return derived_ok
            elif kind == "new":
                out = new_table(rng)
                desc = "new table"
            elif kind == "ragged":
                # the checked constructor is handed columns of DIFFERENT lengths (one column, any position, any dtype):
                # it must refuse; whatever it returns instead has to satisfy the invariant
                n = rng.choice([0, 1, 2, 3, 5])
                data = {"name": np.array([rng.choice(NAMES) for _ in range(n)], dtype=object),
                        "x": np.arange(n, dtype=float), "i": np.arange(n, dtype=int),
                        "s": np.array([rng.choice(["u", "v"]) for _ in range(n)] or [], dtype="U1"),
                        "b": np.array([b"q"] * n, dtype="S1")}
                cols = list(data)
                rng.shuffle(cols)
                victim = rng.choice(cols)
                k = n + rng.choice([1, 2]) if (n == 0 or rng.random() < 0.5) else n - 1
                data[victim] = np.resize(data[victim], k) if k else data[victim][:0]
                if data[victim].dtype == object and k > n:
                    data[victim][n:] = "a"
                desc = "Table(ragged: column %r has %d entries, the others %d; order %s)" % (victim, k, n, cols)
                try:
                    out = Table(data, col_names=cols, index="name")
                    counters["ragged_inputs_accepted"] = counters.get("ragged_inputs_accepted", 0) + 1
                except Exception:
                    out = None
                    counters["ragged_inputs_refused"] = counters.get("ragged_inputs_refused", 0) + 1
            elif kind == "badset":
                # an assignment that FAILS part-way (numpy writes the leading cells before it meets the value it
                # cannot convert); afterwards the table must still satisfy every clause on its CURRENT columns
                if len(src) >= 2 and "x" in real_cols and "i" in real_cols and src._data["x"].ndim == 1:
                    e = rng.choice(["x+2*i", "x*i-1", "x/2"])
                    src[e]                                            # evaluated once before the failure
                    bad = [7.25] + ["oops"] + [1.5] * (len(src) - 2)
                    how = rng.choice(["col", "slice"])
                    desc = "#%d failing %s assignment, then [%r]" % (src_i, how, e)
                    try:
                        if how == "col":
                            src["x"] = bad
                        else:
                            src["x", 0:len(src)] = np.array(bad, dtype=object)
                        counters["failing_assignments_that_did_not_fail"] = counters.get("failing_assignments_that_did_not_fail", 0) + 1
                    except Exception:
                        counters["failing_assignments"] = counters.get("failing_assignments", 0) + 1
                    x, i = src._data["x"], src._data["i"]
                    if getattr(x, "dtype", None) is not None and x.dtype.kind == "f":
                        want = eval(e, {}, {"x": x, "i": i})
                        got = src[e]
                        counters["column_expressions_compared"] = counters.get("column_expressions_compared", 0) + 1
                        if not (np.shape(got) == np.shape(want) and np.array_equal(got, want, equal_nan=True)):
                            violations.append({"what": "C14 column expression %s after a failed assignment: %s, the current columns give %s" % (
                                e, got, want), "log": list(log) + [desc]})
                            return derived_ok
            elif kind == "colexpr":
                if "x" in real_cols and "i" in real_cols:
                    e = rng.choice(["x+2*i", "x*i-1", "i+i", "x/2", "abs(x)", "sqrt(x*x)+i"])
                    sh = [c for c in real_cols if c in SHADOWING_NAMES and c != "abs"]
                    local = {"x": src._data["x"], "i": src._data["i"]}
                    if sh and rng.random() < 0.7:
                        c = rng.choice(sh)
                        e = rng.choice(["%s/2", "x+%s", "2*%s-i", "%s*%s"]).replace("%s", c)
                        local[c] = src._data[c]
                        counters["column_expressions_over_shadowing_names"] = counters.get("column_expressions_over_shadowing_names", 0) + 1
                    desc = "#%d[%r]" % (src_i, e)
                    x, i = src._data["x"], src._data["i"]
                    want = eval(e, {"abs": np.abs, "sqrt": np.sqrt}, local)
                    try:
                        got = src[e]
                        sub = src.cols[e]
                    except Exception as exc:
                        violations.append({"what": "C14 column expression %s raised %s: %s although numpy evaluates it on the columns" % (
                            desc, type(exc).__name__, str(exc)[:120]), "log": list(log)})
                        return derived_ok
                    counters["column_expressions_compared"] = counters.get("column_expressions_compared", 0) + 1
                    if not (np.shape(got) == np.shape(want) and np.array_equal(got, want, equal_nan=True)):
                        violations.append({"what": "C14 column expression %s: %s, numpy gives %s" % (desc, got, want), "log": list(log)})
                        return derived_ok
                    if len(src) and np.ndim(want) == 1:
                        # the same expression with a row selector: t[expr, position]
                        kpos = rng.randrange(len(src))
                        try:
                            cell = src[e, kpos]
                        except Exception as exc:
                            violations.append({"what": "C14 %s with row %d raised %s: %s" % (desc, kpos, type(exc).__name__, str(exc)[:100]), "log": list(log)})
                            return derived_ok
                        if not (cell == want[kpos] or (cell != cell and want[kpos] != want[kpos])):
                            violations.append({"what": "C14 %s with row %d gives %r, numpy gives %r" % (desc, kpos, cell, want[kpos]), "log": list(log)})
                            return derived_ok
                    if e not in sub._col_names or not np.array_equal(sub._data[e], want, equal_nan=True):
                        violations.append({"what": "C14 cols[%r]: column %s, numpy gives %s" % (e, sub._data.get(e), want), "log": list(log)})
                        return derived_ok
                    out = sub
        except Exception as exc:
            if isinstance(exc, (NameError, UnboundLocalError, AttributeError)):
                # an operation on generated input may be rejected (ValueError, KeyError, IndexError, TypeError), not like this
                violations.append({"what": "C14 %s raised %s: %s" % (desc, type(exc).__name__, str(exc)[:150]), "log": list(log)})
                return derived_ok
            # which operations may be refused on generated input, and how: positions / names that do not exist (rows),
            # columns that are not one-dimensional (at, iter, concatenate); everything else here is legal on every table
            allowed = {"rows": (IndexError, KeyError), "rows2": (IndexError, KeyError), "select": (IndexError, KeyError),
                       "at": (ValueError,), "iter": (ValueError,), "concat": (ValueError,)}
            if not isinstance(exc, allowed.get(kind, ())):
                violations.append({"what": "C14 %s raised %s: %s (a legal operation on this table)" % (desc, type(exc).__name__, str(exc)[:150]),
                                   "log": list(log)})
                return derived_ok
            counters.setdefault("exceptions", {})
            key = "%s:%s" % (kind, type(exc).__name__)
            counters["exceptions"][key] = counters["exceptions"].get(key, 0) + 1
            out = None
            desc += " -> raised %s" % type(exc).__name__
        log.append(desc)
        is_derivation = kind not in ("setcol", "newcol", "setcell", "delcol", "new", "pop", "append", "badset", "ragged", "newentry")
        if is_derivation:
            counters["derivations_with_source_snapshot"] = counters.get("derivations_with_source_snapshot", 0) + 1
            why = same_snapshot(snap, snapshot(src))
            if why is None and snap2 is not None:
                why = same_snapshot(snap2[1], snapshot(snap2[0]))
            if why:
                violations.append({"what": "C14 deriving %s changed its source: %s" % (desc, why), "log": list(log)})
                return derived_ok
        if out is not None:
            live.append(out)
            if is_derivation:
                derived_ok += 1
                if kind in ("rows", "rows2", "cols", "cols_borrowed", "cols_str", "select", "head", "tail", "reverse", "neg"):
                    # scalar entries are carried over to row and column selections
                    sa, sb = scalars_of(src), scalars_of(out)
                    sa = {k: v for k, v in sa.items() if not hasattr(v, "dtype")}
                    if any(k not in sb or sb[k] != v for k, v in sa.items()):
                        violations.append({"what": "C14 %s lost scalar entries: source %s, result %s" % (desc, sa, {k: v for k, v in sb.items() if not hasattr(v, 'dtype')}),
                                           "log": list(log)})
                        return derived_ok
            counters["ops_" + kind] = counters.get("ops_" + kind, 0) + 1
        if not check_all(desc):
            return derived_ok
        if len(live) > 8:
            live.pop(rng.randrange(len(live)))
    return derived_ok, log


def run_shard(spec):
    rng = random.Random("C14:%s:%s" % (spec["seed"], spec["shard"]))
    counters, digests, samples, violations = {}, set(), [], []
    n = spec["chains"] if not spec.get("replay") else 500
    for c in range(n):
        res = run_chain(rng, counters, violations)
        counters["chains"] = counters.get("chains", 0) + 1
        if isinstance(res, tuple):
            ok, log = res
            if ok >= 3:
                digests.add(digest(log))
            if len(samples) < 2 and ok >= 5:
                samples.append({"ops": log[:10]})
        if len(violations) >= 10:
            break
    return {"evaluations": counters.get("chains", 0), "digests": sorted(digests), "samples": samples,
            "counters": counters, "violations": violations, "known": []}


TEXT = ("Held on every chain observed: ~6 000 (quick) / ~190 000 (thorough) random derivation chains; the "
        "rectangularity invariant is evaluated on every live table after every operation, each derivation is "
        "bracketed by source snapshots, scalar entries are checked on row/column selections and column expressions "
        "are compared with numpy. Exploration over sampled tables and chains."
        ' Includes assignments that fail part-way between two evaluations of one column expression.')
NOTE = "Trusted: the invariant and snapshot computations over raw _data/_col_names; numpy as the element-wise oracle."
TECHNIQUE = "runtime monitoring: structural invariant evaluated on all live tables after every operation + before/after source snapshots around every derivation + numpy oracle for column expressions"
