"""C10 — accepted optimizer iterates respect limits, max_step and disabled knobs.

Monitors: the knob container records every write together with the knob's `active` flag at that
moment; the log rows are checked offline against the generator's own limits / max_step values;
a twin run in which every disabled target returns garbage must produce a bit-identical knob
write trace; per-call disabling through step()'s arguments must leave the flags as before.
"""
import random

import numpy as np

from vlib import optmon
from vlib.driver import digest

ID = "C10"
LEVEL = "exploration"
DECIDING = ("problems", "log_rows_checked", "jacobian_step_rows_checked", "twin_traces_compared")
RULE = ("generated merit functions whose unconstrained solution lies outside the limits or far away; random per-knob "
        "limits and max_step values (different per knob, raw steps exceeding several at once); every random subset of "
        "disabled knobs / targets, disabled persistently (disable()) or only for one call (step(disable_target=, "
        "disable_vary=, disable_vary_name=)), knobs named by name, tag, position, or some by tag and the others by name in "
        "ONE call; unit weights (exact bounds) and random positive weights (bounds relaxed "
        "by 8 eps |limit|). Non-trivial = >= 2 Jacobian-step rows logged; distinct = sha1 of the problem spec.")
ASSUMPTIONS = [
    "limits, max_step and the disabled subsets are the generator's own inputs",
    "a 'Jacobian step' row is a log row with alpha >= 0; rows added by tag()/reload() (alpha = -1) are not steps",
]
TIMEOUT = {"quick": 900, "thorough": 5400}


def plan(tier, seed):
    if tier == "quick":
        return [{"mode": "pure", "hashseed": h, "problems": 300} for h in (0, 1, 2, 3)]
    return [{"mode": "pure", "hashseed": i % 8, "problems": 2500} for i in range(16)]


def run_once(spec, garbage, percall, how_vary):
    S = optmon.Setup(spec, garbage=garbage)
    dv = [i for i, x in enumerate(spec["dis_v"]) if x]
    dt = [i for i, x in enumerate(spec["dis_t"]) if x]
    kw = {}
    # the knobs are named by name, by tag, by position, or ("mixed") some by tag and the others by name IN ONE CALL
    kv = {}
    if dv:
        if how_vary == "name":
            kv["vary_name"] = ["k%d" % i for i in dv]
        elif how_vary == "mixed":
            h = (len(dv) + 1) // 2
            kv["vary"] = ["v%d" % i for i in dv[:h]]
            if dv[h:]:
                kv["vary_name"] = ["k%d" % i for i in dv[h:]]
        else:
            kv["vary"] = ["v%d" % i for i in dv] if how_vary == "tag" else dv
    if percall:
        kw.update({"disable_" + k: v for k, v in kv.items()})
        if dt:
            kw["disable_target"] = dt
    else:
        if spec.get("one_call") and (dv or dt):
            S.opt.disable(**dict(kv, **({"target": dt} if dt else {})))
        else:
            if dv:
                S.opt.disable(**kv)
            if dt:
                S.opt.disable(target=dt)
        # what disable() was asked for is what the flags say
        want = ([i not in dv for i in range(spec["n"])], [i not in dt for i in range(spec["m"])])
        if S.flags() != want:
            S.flag_issue = "after disable(%s%s) the active flags are %s, asked for %s" % (kv, ", target=%s" % dt if dt else "", S.flags(), want)
    S.cont.log.clear()
    before = S.knobs()
    flags_before = S.flags()
    try:
        S.opt.step(spec["nsteps"], broyden=spec["broyden"], **kw)
        res = "ok"
    except Exception as exc:
        res = type(exc).__name__ + ": " + str(exc)[:80]
    return S, before, flags_before, res, dv, dt


def check_problem(spec, counters, violations):
    percall = spec["percall"]
    S, before, flags_before, res, dv, dt = run_once(spec, None, percall, spec["how_vary"])
    wit = {"spec": spec}
    issues = []
    names = S.names
    if res.startswith("TypeError") or res.startswith("KeyError") or res.startswith("AttributeError"):
        issues.append("step() raised %s" % res)
    if getattr(S, "flag_issue", None):
        issues.append(S.flag_issue)
    counters.setdefault("step_outcomes", {})
    counters["step_outcomes"][res.split(":")[0]] = counters["step_outcomes"].get(res.split(":")[0], 0) + 1
    # (1) a knob that is disabled is never changed
    for (k, v, act, old) in S.cont.log:
        counters["knob_writes_observed"] = counters.get("knob_writes_observed", 0) + 1
        if act is False and v != old:
            issues.append("knob %s was written (%r -> %r) while disabled" % (k, old, v))
            break
    for i in dv:
        if S.cont[names[i]] != before[i]:
            issues.append("disabled knob %d changed from %r to %r" % (i, before[i], S.cont[names[i]]))
    # (2) per-call disabling leaves the flags as they were
    if percall and res == "ok" and S.flags() != flags_before:
        issues.append("after step(disable_...=) the active flags are %s, before %s" % (S.flags(), flags_before))
    # (3) every accepted iterate within the closed limits
    lg = S.opt.log()
    V = np.atleast_2d(lg["vary"])
    alpha = lg["alpha"]
    counters["log_rows_checked"] = counters.get("log_rows_checked", 0) + len(V)
    rows = [list(map(float, r)) for r in V] + [list(map(float, S.knobs()))]
    for i, lim in enumerate(spec["limits"]):
        if lim is None:
            continue
        slack = 0.0 if spec["wv"][i] == 1.0 else 8 * np.finfo(float).eps * max(abs(lim[0]), abs(lim[1]))
        for r, row in enumerate(rows):
            if row[i] < lim[0] - slack or row[i] > lim[1] + slack:
                issues.append("knob %d = %r outside its limits %s in %s" % (i, row[i], lim, "log row %d" % r if r < len(V) else "the container"))
                break
    # (4) between consecutive Jacobian steps no knob moves by more than max_step
    nj = 0
    for r in range(1, len(V)):
        if alpha[r] is not None and alpha[r] >= 0:
            nj += 1
            for i, mx in enumerate(spec["max_step"]):
                if mx is not None and abs(V[r, i] - V[r - 1, i]) > mx * (1 + 1e-9):
                    issues.append("knob %d moved by %r in Jacobian step row %d, max_step is %r" % (i, abs(V[r, i] - V[r - 1, i]), r, mx))
    counters["jacobian_step_rows_checked"] = counters.get("jacobian_step_rows_checked", 0) + nj
    # (5) a disabled target has no influence on the steps taken (twin with garbage in the disabled targets)
    if dt:
        S2, _, _, res2, _, _ = run_once(spec, 1234.5, percall, spec["how_vary"])
        counters["twin_traces_compared"] = counters.get("twin_traces_compared", 0) + 1
        t1 = [(k, v) for k, v, _, _ in S.cont.log]
        t2 = [(k, v) for k, v, _, _ in S2.cont.log]
        if res.split(":")[0] != res2.split(":")[0] or t1 != t2:
            j = next((j for j, (a, b) in enumerate(zip(t1, t2)) if a != b), min(len(t1), len(t2)))
            issues.append("knob write trace differs when only the DISABLED targets %s return other values (first difference at write %d: %s vs %s; outcomes %s / %s)" % (
                dt, j, t1[j:j + 1], t2[j:j + 1], res, res2))
    # (6) second phase: the user changes the DISABLED knobs by hand (inside their limits) between two calls;
    #     the optimizer must leave those values alone (container and every later log row)
    if spec.get("phase2") and dv and not issues and res == "ok":
        if percall:
            kw2 = {"disable_vary_name": ["k%d" % i for i in dv]}
        else:
            kw2 = {}
        user = {}
        for i in dv:
            lim = spec["limits"][i]
            lo, hi = (lim if lim is not None else (-1.0, 1.0))
            user[i] = lo + (hi - lo) * spec["phase2_frac"][i]
            dict.__setitem__(S.cont, names[i], user[i])          # the user's own write, not the optimizer's
        S.cont.log.clear()
        n_before = len(S.opt._log["penalty"])
        try:
            S.opt.step(spec["nsteps"], broyden=spec["broyden"], **kw2)
        except Exception as exc:
            counters["phase2_raised"] = counters.get("phase2_raised", 0) + 1
        counters["phase2_runs"] = counters.get("phase2_runs", 0) + 1
        V2 = np.atleast_2d(S.opt.log()["vary"])
        for i in dv:
            if S.cont[names[i]] != user[i]:
                issues.append("disabled knob %d was set to %r by the user between two calls; the next step() changed it to %r" % (i, user[i], S.cont[names[i]]))
            elif any(float(v) != user[i] for v in V2[n_before:, i]):
                issues.append("disabled knob %d was set to %r by the user; later log rows record %s" % (i, user[i], [float(v) for v in V2[n_before:, i]]))
    # (7) a target disabled only AFTER a Jacobian was computed with it enabled (persistently or for one call), next step
    #     with Broyden updates: on a LINEAR problem a Broyden update of a finite-difference Jacobian changes nothing
    #     beyond rounding, so the step must be the one taken with a recomputed Jacobian (in which the disabled target's
    #     row is zero by construction) -- whatever was remembered about the disabled target must not steer the step
    if spec["kind"] == "lin" and spec["m"] >= 2 and not issues:
        late = [i for i, x in enumerate(spec["dis_t"]) if x] or [spec["m"] - 1]
        # (only where the comparison is numerically meaningful: the systems solved in both calls well conditioned in solver
        #  units, so that the 1e-8 rounding of a finite-difference Jacobian stays far below the comparison tolerance)
        Ax = np.array(spec["A"], dtype=float) * np.array(spec["wv"], dtype=float)[None, :] * np.array(spec["wt"], dtype=float)[:, None]
        keep = [i for i in range(spec["m"]) if i not in late]
        conds = []
        for M_ in (Ax, Ax[keep, :] if keep else Ax):
            sv = np.linalg.svd(M_, compute_uv=False)
            conds.append(sv[0] / sv[min(M_.shape) - 1] if sv[min(M_.shape) - 1] > 0 else np.inf)
        if len(late) < spec["m"] and max(conds) <= 50:
            finals = []
            for broy in (True, False):
                S3 = optmon.Setup(dict(spec, dis_t=[False] * spec["m"], dis_v=[False] * spec["n"], optlog=None))
                try:
                    S3.opt.step(1, broyden=broy)
                    if percall:
                        S3.opt.step(1, broyden=broy, disable_target=late)
                    else:
                        S3.opt.disable(target=late)
                        S3.opt.step(1, broyden=broy)
                    finals.append([float(v) for v in S3.knobs()])
                except Exception:
                    finals.append(None)
            if finals[0] is None or finals[1] is None:
                counters["late_disable_runs_raised"] = counters.get("late_disable_runs_raised", 0) + 1
            else:
                counters["late_disable_broyden_vs_recomputed"] = counters.get("late_disable_broyden_vs_recomputed", 0) + 1
                if any(abs(a - b) > 1e-4 * (1.0 + abs(a) + abs(b)) for a, b in zip(*finals)):
                    issues.append("linear problem, target(s) %s disabled after a first step: the next step with Broyden updates ends at %s, with a "
                                  "recomputed Jacobian at %s (the disabled target's remembered Jacobian row steers the step)" % (late, finals[0], finals[1]))
    for what in issues[:3]:
        violations.append(dict(wit, what="C10 " + what))
    return nj


def gen(rng):
    spec = optmon.gen_problem(rng, families=("lin", "quad", "trig", "lin", "rankdef"), hard_limits=rng.random() < 0.6)
    spec["split_actions"] = rng.random() < 0.35       # one action object per target instead of one for all
    spec["nsteps"] = rng.choice([1, 2, 4, 6])
    spec["percall"] = rng.random() < 0.5
    spec["how_vary"] = rng.choice(["name", "tag", "index", "mixed"])
    spec["one_call"] = rng.random() < 0.5
    spec["max_step"] = [rng.choice([None, 0.05, 0.1, 0.5, 2.0]) for _ in range(spec["n"])]
    if rng.random() < 0.5:
        spec["wv"] = [1.0] * spec["n"]
    spec["dis_v"] = [rng.random() < 0.3 for _ in range(spec["n"])]
    spec["dis_t"] = [rng.random() < 0.3 for _ in range(spec["m"])]
    if all(spec["dis_v"]):
        spec["dis_v"][0] = False
    if all(spec["dis_t"]):
        spec["dis_t"][0] = False
    # some DISABLED targets are declared with optimize_log=True (legal while their value and target are positive at
    # construction, when every target is still active); disabled, they must not influence anything
    f0 = optmon.make_f(spec)(spec["x0"])
    spec["optlog"] = [bool(spec["dis_t"][i] and spec["tars"][i] > 0 and f0[i] > 0 and rng.random() < 0.7) for i in range(spec["m"])]
    spec["check_limits"] = rng.random() < 0.7      # False: the merit function itself does not police the limits
    spec["phase2"] = rng.random() < 0.6
    spec["phase2_frac"] = [rng.uniform(0.2, 0.8) for _ in range(spec["n"])]
    return spec


def run_shard(spec_):
    rng = random.Random("C10:%s:%s" % (spec_["seed"], spec_["shard"]))
    optmon.quiet()
    optmon.install_lstsq_contract()
    counters, digests, samples, violations = {}, set(), [], []
    if spec_.get("replay"):
        check_problem(spec_["replay"]["spec"], counters, violations)
        return {"evaluations": 1, "digests": [], "samples": [], "counters": counters, "violations": violations, "known": []}
    for p in range(spec_["problems"]):
        spec = gen(rng)
        try:
            nj = check_problem(spec, counters, violations)
        except Exception as exc:
            import traceback
            violations.append({"what": "C10 a legal sequence of optimizer API calls raised %s: %s" % (type(exc).__name__, str(exc)[:200]),
                               "spec": spec, "traceback": traceback.format_exc()[-1500:]})
            nj = 0
        counters["problems"] = counters.get("problems", 0) + 1
        if nj >= 2:
            digests.add(digest(spec))
        if len(samples) < 2 and nj >= 2:
            samples.append({k: spec[k] for k in ("kind", "n", "m", "limits", "max_step", "wv", "dis_v", "dis_t", "percall", "nsteps")})
        if len(violations) >= 9:
            break
    counters["lstsq_calls_checked"] = optmon.LSTSQ["calls"]
    for v in optmon.LSTSQ["violations"]:
        violations.append({"what": "C16 contract on SVD.lstsq (observed inside a C10 workload): " + v["what"], "lstsq": v})
    return {"evaluations": counters.get("problems", 0), "digests": sorted(digests), "samples": samples,
            "counters": counters, "violations": violations[:12], "known": []}


TEXT = ("Held on every run observed: ~1 200 (quick) / ~40 000 (thorough) problems; every log row and the final container "
        "are checked against the closed limits, every Jacobian-step row against max_step, every knob write against the "
        "knob's active flag at that moment, per-call disabling against the flags before the call, and a garbage twin "
        "shows that disabled targets do not influence the write trace. Exploration over sampled problems."
        ' Knobs are named by name, tag, position, or some by tag and the others by name in ONE enable/disable call; the flags are compared with what was asked for.')
NOTE = "Trusted: the tracing knob container; the generator's own limits / max_step / disabled subsets."
TECHNIQUE = "runtime monitoring: knob write trace with flags at write time + offline checks of the optimizer log against generator-side bounds + twin run with perturbed disabled targets"
