"""C02 — one assignment runs exactly the downstream tasks, once each, in dependency order.

Monitor: every set_value window is recorded (run events of the three task classes + container
write events) and checked offline against (a) the trigger set derived from the tasks' public
attributes, (b) exactly-once, (c) the true data-flow order, (d) one write per expression run.
The same window is re-executed under several permutations of the start set.
"""
import random

from vlib import containers as C
from vlib import gen, kf, lockstep, mgrmon
from vlib import programs as P
from vlib.driver import digest
from vlib.values import enc

ID = "C02"
LEVEL = "exploration"
DECIDING = ("windows_checked", "run_events_checked", "cyclic_windows_checked")
RULE = ("windows = single assignments inside generated histories (C01 generator incl. function tasks, linear "
        "knobs, diamonds, nested targets, bystander sub-graphs) plus an end-of-history sweep assigning every "
        "location; idempotent windows are repeated under 3-6 random permutations of the start set; cyclic graphs "
        "are generated separately for the termination / at-most-once clause. A window is non-trivial when it "
        "ran >= 2 tasks; distinct = sha1 of (history prefix, assigned location).")
ASSUMPTIONS = [
    "the trigger set is derived from each task's public targets/dependencies (owners included, top-level container excluded, as the library reports them)",
    "order is checked against the TRUE data flow known to the generator (weaker than the reported relation)",
    "termination is a logical bound (run events <= tasks); the wall-clock watchdog only yields inconclusive",
]
TIMEOUT = {"quick": 900, "thorough": 5400}


def plan(tier, seed):
    if tier == "quick":
        return [{"mode": "compiled", "hashseed": 0, "histories": 160, "cyclic": 150},
                {"mode": "compiled", "hashseed": 1, "histories": 160, "cyclic": 150},
                {"mode": "pure", "hashseed": 2, "histories": 160, "cyclic": 150},
                {"mode": "compiled", "hashseed": 3, "histories": 160, "cyclic": 150}]
    return [{"mode": "compiled" if i % 2 == 0 else "pure", "hashseed": i % 8, "histories": 1500, "cyclic": 1500}
            for i in range(32)]


def owners_chain(ref, R):
    out = [ref]
    o = ref._owner
    while isinstance(o, R.MutableRef) and not isinstance(o, R.Ref):
        out.append(o)
        o = o._owner
    return out


def oracle_trigger(mgr, ref, R):
    """closure({t : deps(t) & ({ref} | owners(ref))}) under a->b iff targets(a) & deps(b)."""
    seeds = set(owners_chain(ref, R))
    tasks = mgr.tasks
    deps = {tid: set(t.dependencies) for tid, t in tasks.items()}
    tars = {tid: set(t.targets) for tid, t in tasks.items()}
    by_dep = {}
    for tid, ds in deps.items():
        for d in ds:
            by_dep.setdefault(d, set()).add(tid)
    seen = set()
    todo = [tid for tid in tasks if deps[tid] & seeds]
    while todo:
        t = todo.pop()
        if t in seen:
            continue
        seen.add(t)
        for x in tars[t]:
            todo.extend(by_dep.get(x, ()))
    return seen


def analyze_window(trace, mgr, assigned_ref, R, T, counters):
    """Offline checks over one recorded window. Returns (problems, runs)."""
    problems = []
    runs = [e[1] for e in trace if e[0] == "run"]
    counters["windows_checked"] = counters.get("windows_checked", 0) + 1
    counters["run_events_checked"] = counters.get("run_events_checked", 0) + len(runs)
    expected = oracle_trigger(mgr, assigned_ref, R) if assigned_ref is not None else set()
    seen = {}
    for t in runs:
        seen[t] = seen.get(t, 0) + 1
    dup = [t for t, n in seen.items() if n > 1]
    if dup:
        problems.append("task(s) ran more than once: %s" % sorted(map(str, dup))[:4])
    extra = set(seen) - expected
    if extra:
        problems.append("task(s) outside the trigger set ran: %s" % sorted(map(str, extra))[:4])
    missing = expected - set(seen)
    if missing:
        problems.append("triggered task(s) did not run: %s" % sorted(map(str, missing))[:4])
    if len(runs) > len(mgr.tasks):
        problems.append("more run events (%d) than tasks (%d)" % (len(runs), len(mgr.tasks)))
    # cross-check with container write events: every expression run performs exactly one write
    cur, nwrites = None, 0
    for e in trace + [("run", None)]:
        if e[0] == "run":
            if cur is not None and cur in mgr.tasks:
                task = mgr.tasks[cur]
                want = len(task.targets) if isinstance(task, T.LinearKnob) else 1
                if nwrites != want:
                    problems.append("task %s performed %d writes, expected %d" % (cur, nwrites, want))
            cur, nwrites = e[1], 0
        elif e[0] == "w" and cur is not None:
            nwrites += 1
    return problems, runs


def run_history(rng, counters, digests, samples, violations, known, layered, nops):
    import xdeps.refs as R
    import xdeps.tasks as T
    # one world in five uses integer keys whose refs collide in hash (-1 / -2, 0 / 2**61-1) for sibling locations
    tw = rng.random() < 0.2
    if tw:
        counters["worlds_with_hash_colliding_sibling_keys"] = counters.get("worlds_with_hash_colliding_sibling_keys", 0) + 1
    hg = gen.HistoryGen(rng, layered=layered, depth=rng.choice([2, 3, 3]), profile="safe", world=gen.make_world(rng, layered, twins=True) if tw else None,
                        weights={"ftask": 0.06, "knob": 0.05, "define": 0.45, "load": 0.03 if layered else 0.0})
    ls = lockstep.LockStep(hg.world)
    orders_seen = {}

    def window(op, exp, nperm, tag):
        """Returns True if the history must be cut."""
        ref = None
        if op[0] in ("set", "iop", "replace"):
            ref = ls.runner.mkref(op[1])
        elif op[0] == "ftask":
            ref = ls.runner.mkref(op[2][0])
        for trial in range(nperm):
            mgrmon.set_shuffle_rng(random.Random(rng.random()))
            f = ls.step(op, exp)
            trace = list(C.EVENTS)
            if f and f["kind"] == "exception" and kf.is_open("KF1", ID) and op[0] in ("set", "iop") and \
                    (kf.kf1_premature(ls.runner.mgr, f["run_order"], hg.shadow, ls.runner, op[1])[0]
                     or kf.kf1(ls.runner.mgr, f["run_order"], hg.shadow, ls.runner)[0]):
                # (second form: the inversion lies among the tasks that already ran, a consumer of the stale result raised)
                known.append(kf.known("KF1", "a task evaluated before its producer raised on the stale input"))
                return True
            if f and f["kind"] == "exception" and hg.shadow.stale and f["exc_type"] != "KeyError":
                # after a load the values are not those of the shadow (nothing was evaluated): Python may
                # legitimately reject an operation the shadow accepted; the history ends here
                counters["histories_ended_by_evaluation_error_on_stale_values"] = \
                    counters.get("histories_ended_by_evaluation_error_on_stale_values", 0) + 1
                return True
            if f and f["kind"] == "exception":
                violations.append({"what": "C02 %s raised %s: %s" % (op[0], f["exc_type"], f["exc"]),
                                   "world": hg.world, "ops": list(ls.ops), "failure": f})
                return True
            problems, runs = analyze_window(trace, ls.runner.mgr, ref, R, T, counters)
            info = mgrmon.writers_and_reads(hg.shadow, ls.runner)
            # lower bound from the TRUE data flow known to the generator (the trigger oracle above is built on the
            # relation the manager declares; a task that under-declares what it writes would satisfy it consistently)
            if op[0] in ("set", "iop", "replace") and not problems:
                ack = hg.shadow.ckey(op[1])
                lower = set()
                for tid, (w, rd) in info.items():
                    clo = set()
                    for ck in w:
                        clo |= hg.shadow.true_reads_closure(ck)
                    if any(mgrmon._related(ack, c) for c in clo if c not in w) and ack not in w:
                        lower.add(tid)
                counters["true_downstream_tasks_checked"] = counters.get("true_downstream_tasks_checked", 0) + len(lower)
                gone = lower - set(runs)
                if gone:
                    problems.append("task(s) truly downstream of the assigned location did not run: %s" % sorted(map(str, gone))[:4])
            inv = mgrmon.inversions(runs, info)
            kf1_hit = False
            if inv:
                ok, why, _ = mgrmon.classify_kf1(ls.runner.mgr, runs, info, mgrmon.task_kinds(hg.shadow))
                if ok and kf.is_open("KF1", ID):
                    kf1_hit = True
                    known.append(kf.known("KF1"))
                else:
                    problems.append("consumer ran before its producer: %s (%s)" % (
                        [(str(a), str(b)) for a, b in inv[:3]], why))
            if problems:
                violations.append({"what": "C02 window %s %s: %s" % (op[0], P.path_text(op[1]) if op[0] != "ftask" else op[1],
                                                                      "; ".join(problems)),
                                   "world": hg.world, "ops": list(ls.ops), "problems": problems,
                                   "run_order": [str(t) for t in runs]})
                return True
            if f and f["kind"] == "mismatch":
                # values are C01's business; a mismatch here must be the open finding KF1 (else report)
                ok, why, _ = kf.kf1(ls.runner.mgr, runs, hg.shadow, ls.runner)
                if (ok or kf1_hit) and kf.is_open("KF1", ID):
                    known.append(kf.known("KF1"))
                elif kf.is_open("KF6", ID) and kf.kf6(hg.shadow, runs, [m[0] for m in f["mismatches"]]):
                    known.append(kf.known("KF6"))
                else:
                    violations.append({"what": "C02 (value oracle) mismatch after %s: %s" % (op[0], f),
                                       "world": hg.world, "ops": list(ls.ops), "failure": f})
                return True
            if kf1_hit:
                return True
            key = (len(ls.ops) if nperm == 1 else tag)
            orders_seen.setdefault(key, set()).add(tuple(map(str, runs)))
            if len(runs) >= 2:
                digests.add(digest([hg.world, ls.ops[:12], len(ls.ops), op[:2]]))
        return False

    cut = False
    for step in range(nops):
        op, exp = hg.next_op()
        if op is None:
            break
        if hg.shadow.stale:
            exp = None          # load registers without evaluating: values are no longer the shadow's (trigger sets still are checked)
        idempotent = op[0] == "set" or op[0] == "replace"
        cut = window(op, exp, rng.choice([3, 4, 6]) if idempotent else 1, ("h", step))
        counters["ops_" + op[0]] = counters.get("ops_" + op[0], 0) + 1
        if cut:
            break
    if not cut:
        # sweep: assign every undefined location its current value (state unchanged, tasks re-run)
        sh = hg.shadow
        tt = hg.task_targets()
        exp = None if sh.stale else sh.all_expected()
        locs = [l for l in hg.locs if sh.ckey(l["path"]) not in sh.defs and sh.ckey(l["path"]) not in tt]
        rng.shuffle(locs)
        for l in locs:
            try:
                cur = ls.runner.mkref(l["path"])._get_value() if sh.stale else sh.expected_path(l["path"])
            except Exception:
                continue
            try:
                v = enc(cur)
            except TypeError:
                continue
            if window(["set", l["path"], ["v", v]], exp, 3, ("s", P.path_text(l["path"]))):
                cut = True
                break
            counters["sweep_windows"] = counters.get("sweep_windows", 0) + 1
    counters["histories"] = counters.get("histories", 0) + 1
    counters["windows_with_2plus_distinct_orders"] = counters.get("windows_with_2plus_distinct_orders", 0) + \
        sum(1 for v in orders_seen.values() if len(v) >= 2)
    counters["windows_repeated_under_permutations"] = counters.get("windows_repeated_under_permutations", 0) + \
        sum(1 for k in orders_seen if not isinstance(k, int))
    if len(samples) < 2 and len(ls.ops) > 8:
        samples.append({"ops": ls.ops[:10], "n_ops": len(ls.ops),
                        "distinct_orders_per_window": sorted((len(v) for v in orders_seen.values()), reverse=True)[:8]})


def run_cyclic(rng, counters, digests, samples, violations):
    """Cyclic graphs: termination (logical bound) and at-most-once; exact trigger set as well."""
    import xdeps
    import xdeps.refs as R
    import xdeps.tasks as T
    C.reset()
    m = xdeps.Manager()
    n = rng.randrange(3, 9)
    d = C.LogDict()
    d._vpath = "r"
    for i in range(n):
        dict.__setitem__(d, "x%d" % i, 1.0)
    box = C.LogDict({"p": 1.0, "q": 2.0})
    box._vpath = "r['box']"
    dict.__setitem__(d, "box", box)
    r = m.ref(d, "r")
    names = ["x%d" % i for i in range(n)]
    refs = [r[k] for k in names] + [r["box"]["p"], r["box"]["q"]]
    ops = []
    for _ in range(rng.randrange(3, 12)):
        t = rng.choice(refs)
        a, b = rng.choice(refs), rng.choice(refs)     # no acyclicity constraint: cycles on purpose
        kind = rng.random()
        if kind < 0.7:
            ops.append(("expr", t, a, b))
        elif kind < 0.85:
            ops.append(("ftask", t, a, b))
        else:
            ops.append(("val", t, None, None))
    nft = 0
    for kind, t, a, b in ops + [("val", x, None, None) for x in rng.sample(refs, len(refs))]:
        del C.EVENTS[:]
        mgrmon.set_shuffle_rng(random.Random(rng.random()))
        try:
            if kind == "expr":
                m.set_value(t, a * 0.5 + b * 0.25)
            elif kind == "ftask":
                nft += 1

                def action(t=t, a=a, b=b):
                    t._set_value(a._get_value() * 0.5 - b._get_value() * 0.125)
                m.register(T.FunctionTask("G%d" % nft, action, t._get_dependencies(),
                                          a._get_dependencies() | b._get_dependencies()))
                m.set_value(a, a._get_value())
                t = a
            else:
                m.set_value(t, rng.choice([0.5, 2.0, -1.0]))
        except Exception as exc:
            violations.append({"what": "C02 cyclic graph: assignment raised %s: %s" % (type(exc).__name__, str(exc)[:300]),
                               "cyclic_ops": [(k, str(x), str(y), str(z)) for k, x, y, z in ops]})
            return
        problems, runs = analyze_window(list(C.EVENTS), m, t, R, T, counters)
        counters["cyclic_windows_checked"] = counters.get("cyclic_windows_checked", 0) + 1
        if mgrmon.has_structural_cycle(m) or any(tid in m.rtasks.get(tid, ()) for tid in m.tasks):
            counters["cyclic_windows_on_cyclic_graph"] = counters.get("cyclic_windows_on_cyclic_graph", 0) + 1
            if len(runs) >= 2:
                digests.add(digest(["cyc", [(k, str(x), str(y), str(z)) for k, x, y, z in ops], str(t)]))
        if problems:
            violations.append({"what": "C02 cyclic graph window on %s: %s" % (t, "; ".join(problems)),
                               "cyclic_ops": [(k, str(x), str(y), str(z)) for k, x, y, z in ops],
                               "run_order": [str(x) for x in runs]})
            return
    if len(samples) < 3:
        samples.append({"cyclic_ops": [(k, str(x), str(y), str(z)) for k, x, y, z in ops][:8]})


class NumBox:
    def total(self, c):
        """Sum of the numeric leaves of a (nested) container; strings (selectors) are skipped."""
        if isinstance(c, dict):
            return sum(self.total(v) for v in c.values())
        if isinstance(c, (list, tuple)):
            return sum(self.total(v) for v in c)
        return c if isinstance(c, (int, float)) and not isinstance(c, bool) else 0


def computed_key_target_case(rng, counters, violations):
    """Nested targets addressed through a COMPUTED key whose holder lives in the written container itself or in an
    enclosing one (a selector kept next to the slots it selects), plus tasks reading those containers as a whole.
    The oracle is the true data flow of this fixed graph (not the relation the manager declares)."""
    import xdeps
    C.reset()
    m = xdeps.Manager()
    where = rng.choice(["same", "enclosing", "elsewhere"])
    d = {"box": {"sel": "p", "inner": {"p": 1.0, "q": 2.0, "sel": "q"}}, "sel": "p", "k": 1.5, "k2": -2.0,
         "tot_inner": 0.0, "tot_box": 0.0, "after": 0.0, "other": 0.0}
    x = m.ref(d, "x")
    f = m.ref(NumBox(), "f")
    key = {"same": x["box"]["inner"]["sel"], "enclosing": x["box"]["sel"], "elsewhere": x["sel"]}[where]
    slot = {"same": "q", "enclosing": "p", "elsewhere": "p"}[where]
    defs = [
        ("W", lambda: m.set_value(x["box"]["inner"][key], x["k"] * 2)),
        ("R_inner", lambda: m.set_value(x["tot_inner"], f.total(x["box"]["inner"]))),
        ("R_box", lambda: m.set_value(x["tot_box"], f.total(x["box"]) + 1)),
        ("R_after", lambda: m.set_value(x["after"], x["tot_inner"] * 10 + x["tot_box"])),
        ("other", lambda: m.set_value(x["other"], x["k2"] + 1)),
    ]
    rng.shuffle(defs)
    for _, mk in defs:
        mk()
    wit = {"case": "computed-key target, key holder %s, definition order %s" % (where, [n for n, _ in defs])}
    names = {str(x["box"]["inner"][key]): "W", "x['tot_inner']": "R_inner", "x['tot_box']": "R_box", "x['after']": "R_after", "x['other']": "other"}
    for val in (5.0, -1.25, 0.5):
        del C.EVENTS[:]
        mgrmon.set_shuffle_rng(random.Random(rng.random()))
        try:
            m.set_value(x["k"], val)
        except Exception as exc:
            violations.append(dict(wit, what="C02 %s: assignment raised %s: %s" % (wit["case"], type(exc).__name__, str(exc)[:200])))
            return
        runs = [names.get(str(e[1]), str(e[1])) for e in C.EVENTS if e[0] == "run"]
        counters["computed_key_target_windows"] = counters.get("computed_key_target_windows", 0) + 1
        problems = []
        if sorted(runs) != ["R_after", "R_box", "R_inner", "W"]:
            problems.append("tasks run %s, the tasks downstream of x['k'] are W, R_inner, R_box, R_after (each once)" % runs)
        else:
            pos = {n: i for i, n in enumerate(runs)}
            if not (pos["W"] < pos["R_inner"] < pos["R_after"] and pos["W"] < pos["R_box"] < pos["R_after"]):
                problems.append("order %s: a consumer ran before its producer" % runs)
        inner = dict(d["box"]["inner"])
        want_inner = {"p": 1.0, "q": 2.0}
        want_inner[slot] = val * 2
        ti = want_inner["p"] + want_inner["q"]
        want = {"tot_inner": ti, "tot_box": ti + 1, "after": ti * 10 + ti + 1}
        got = {k: d[k] for k in want}
        if {k: inner[k] for k in ("p", "q")} != want_inner or got != want:
            problems.append("values %s / %s, expected %s / %s" % ({k: inner[k] for k in ("p", "q")}, got, want_inner, want))
        if problems:
            violations.append(dict(wit, what="C02 %s, x['k'] = %r: %s" % (wit["case"], val, "; ".join(problems))))
            return


def run_shard(spec):
    rng = random.Random("C02:%s:%s" % (spec["seed"], spec["shard"]))
    mgrmon.install_reach_counters()
    mgrmon.install_run_events()
    mgrmon.install_toposort(random.Random(1), contract_every=1)
    counters, digests, samples, violations, known = {}, set(), [], [], []
    if spec.get("replay"):
        wit = spec["replay"]
        if "ops" in wit:
            import xdeps.refs as R
            import xdeps.tasks as T

            def on_step(i, op, ls, sh):
                ref = ls.runner.mkref(op[1]) if op[0] in ("set", "iop", "replace") else (
                    ls.runner.mkref(op[2][0]) if op[0] == "ftask" else None)
                problems, runs = analyze_window(list(C.EVENTS), ls.runner.mgr, ref, R, T, counters)
                info = mgrmon.writers_and_reads(sh, ls.runner)
                inv = mgrmon.inversions(runs, info)
                if inv and not mgrmon.classify_kf1(ls.runner.mgr, runs, info, mgrmon.task_kinds(sh))[0]:
                    problems.append("consumer before producer: %s" % [(str(a), str(b)) for a, b in inv[:3]])
                return {"kind": "window", "problems": problems} if problems else None
            f, i, ls, sh = lockstep.replay_history(wit["world"], wit["ops"], on_step)
            if f:
                violations.append({"what": "replayed: %s" % (f,), "world": wit["world"], "ops": wit["ops"]})
        return {"evaluations": 1, "digests": [], "samples": [], "counters": counters, "violations": violations, "known": known}
    for h in range(40 if not spec.get("replay") else 0):
        if violations:
            break
        computed_key_target_case(rng, counters, violations)
    for h in range(spec.get("histories", 0)):
        layered = rng.random() < 0.7
        run_history(rng, counters, digests, samples, violations, known, layered, rng.randrange(8, 30))
        if len(violations) >= 5:
            break
    for h in range(spec.get("cyclic", 0)):
        run_cyclic(rng, counters, digests, samples, violations)
        counters["cyclic_graphs"] = counters.get("cyclic_graphs", 0) + 1
        if len(violations) >= 5:
            break
    if spec["shard"] == 0 and kf.is_open("KF1", ID):
        # the open finding's witness: order clause on the structural-cycle example
        from checks import c01
        world = c01.witness_world()
        import xdeps.refs as R
        for trial in range(24):
            mgrmon.set_shuffle_rng(random.Random(trial))
            sh = lockstep.Shadow(world)
            ls = lockstep.LockStep(world)
            hit = False
            for op in c01.KF1_WITNESS["ops"]:
                sh.apply(op)
                ls.step(op, None)
                runs = ls.run_order()
                info = mgrmon.writers_and_reads(sh, ls.runner)
                if mgrmon.inversions(runs, info) and mgrmon.classify_kf1(ls.runner.mgr, runs, info, mgrmon.task_kinds(sh))[0]:
                    hit = True
            if hit:
                known.append(kf.known("KF1"))
                counters["witness_KF1_reproduced"] = 1
                break
    counters.update({"monitor_" + k: v for k, v in mgrmon.COUNTS.items()})
    counters["anchors_reached"] = dict(mgrmon.REACH)
    counters["assignments_value_compared"] = lockstep.STATS["assignments_compared"]
    counters["queries_checked_read_only"] = lockstep.STATS.get("queries_checked", 0)
    return {"evaluations": counters.get("windows_checked", 0), "digests": sorted(digests), "samples": samples,
            "counters": counters, "violations": violations, "known": known}


TEXT = ("Held on every window observed: ~30 000 (quick) / ~10^6 (thorough) recorded set_value windows, each compared "
        "with the trigger set derived from public task attributes (exact set, exactly once), the true data-flow "
        "order and the write trace; idempotent windows are re-run under several start-set permutations and the "
        "evidence counts windows seen under >= 2 distinct valid orders; cyclic graphs checked for the logical "
        "termination bound. Exploration over sampled graphs and schedules."
        ' One world in five uses hash-colliding integer sibling keys (-1/-2, 0/2**61-1).')
NOTE = ("Trusted: run events come from class-level wrappers of ExprTask/FunctionTask/LinearKnob.run (a window with "
        "writes but no run events would make the deciding counters zero => inconclusive); the generator's true "
        "data-flow relation; start-set shuffling only produces orders a set iteration can really have.")
TECHNIQUE = "runtime monitoring: recorded run/write event trace per assignment checked offline against trigger-set, exactly-once and order oracles under start-set permutations and hash seeds"
