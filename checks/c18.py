"""C18 — a failure in the middle of an update is reported and fully recoverable.

Fault enumeration: for every generated update, a fault-free reference run records the event
sequence (container writes, function calls, task runs); the update is then re-executed on a
fresh copy of the same state once per position k with the k-th write (or k-th function call)
armed to raise.  Oracles: the exception reaches the caller; the events before the fault are
exactly the reference prefix and nothing happens after it; the contents are the initial ones
plus the first k reference writes; definitions / index supports / verify() intact; after the
fault is removed and the assignment repeated, the pull-model shadow (C01 oracle) agrees.
"""
import random

from vlib import containers as C
from vlib import gen, kf, lockstep, mgrmon
from vlib import programs as P
from vlib.driver import digest
from vlib.shadow import Shadow
from vlib.values import canon

ID = "C18"
LEVEL = "fault_enumeration"
DECIDING = ("crash_points_injected", "recoveries_checked", "prefix_checks")
RULE = ("updates = value or expression assignments on C01-style layered graphs (expression, function and "
        "linear-knob tasks); for each update EVERY write position k (k=0 is the initial write of the assigned "
        "location) and every function-call position is injected on a fresh copy of the state; plus sequences of "
        "2-3 faulty updates before the clean repeat. A crash point is non-trivial when k >= 1 (at least one task "
        "had already run); distinct = sha1 of (world, prefix, update, kind, k).")
ASSUMPTIONS = [
    "faults are injected at container writes (tracing containers) and at calls of container-held functions",
    "'definitions unchanged' is read as: the intended post-assignment definitions (pre-assignment also accepted for k=0)",
    "the same process, hash seed and start-set order are used for the reference and the faulted run",
]
TIMEOUT = {"quick": 900, "thorough": 5400}


def plan(tier, seed):
    if tier == "quick":
        return [{"mode": "compiled", "hashseed": 0, "graphs": 200},
                {"mode": "compiled", "hashseed": 1, "graphs": 200},
                {"mode": "pure", "hashseed": 2, "graphs": 200},
                {"mode": "pure", "hashseed": 3, "graphs": 200}]
    return [{"mode": "compiled" if i % 2 == 0 else "pure", "hashseed": i % 8, "graphs": 450} for i in range(32)]


KF3 = {"id": "KF3"}


def build_state(world, prefix):
    sh = Shadow(world)
    ls = lockstep.LockStep(world)
    mgrmon.set_shuffle_rng(None)
    for op in prefix:
        sh.apply(op)
        ls.runner.exec_op(op)
    ls.ops = list(prefix)
    return ls, sh


def loc_text(e):
    return e[1] + ("." + e[2] if e[4] == "a" else "[%r]" % (e[2],))


def skeleton(events):
    out = []
    for e in events:
        if e[0] == "w":
            out.append(("w", loc_text(e), canon(e[3])))
        elif e[0] == "run":
            out.append(("run", str(e[1])))
        elif e[0] == "c":
            out.append(("c", e[1]))
    return out


def defs_of(mgr):
    return sorted(map(tuple, mgr.dump())), sorted(map(str, mgr.tasks))


def knob_partial(events_before_fault, mgr):
    """KF3 mechanism: the fault hit a write of a LinearKnob (with > 1 target) after at least one
    of its target writes in the same run."""
    import xdeps.tasks as T
    last_run = None
    writes_since = 0
    for e in events_before_fault:
        if e[0] == "run":
            last_run, writes_since = e[1], 0
        elif e[0] == "w":
            writes_since += 1
    if last_run is None or last_run not in mgr.tasks:
        return False
    t = mgr.tasks[last_run]
    return isinstance(t, T.LinearKnob) and len(t.targets) > 1 and writes_since >= 1


def one_update(world, prefix, op, counters, digests, violations, known, rng, samples):
    # ---- fault-free reference ----------------------------------------------------------
    ls, sh = build_state(world, prefix)
    pre_contents = {k: canon(v) for k, v in ls.runner.contents().items()}
    pre_defs = defs_of(ls.runner.mgr)
    sh.apply(op)
    expected = {k: canon(v) for k, v in sh.all_expected().items()}
    del C.EVENTS[:]
    ls.runner.exec_op(op)
    ref_events = list(C.EVENTS)
    ref_skel = skeleton(ref_events)
    post_defs = defs_of(ls.runner.mgr)
    got = {k: canon(v) for k, v in ls.runner.contents().items()}
    if got != expected:
        if kf.is_open("KF1", ID) and mgrmon.shadow_structural_cycle(sh, ls.runner):
            known.append(kf.known("KF1"))
        else:
            violations.append({"what": "C18 fault-free reference run disagrees with the shadow (C01 oracle)",
                               "world": world, "ops": prefix + [op]})
        return
    n_w = sum(1 for e in ref_events if e[0] == "w")
    n_c = sum(1 for e in ref_events if e[0] == "c")
    counters["updates"] = counters.get("updates", 0) + 1
    counters["reference_events"] = counters.get("reference_events", 0) + len(ref_events)
    points = [("write", k) for k in range(n_w)] + [("call", k) for k in range(n_c)]
    # sequences of several faulty updates in a row (second/third position drawn at random)
    seqs = [(kind, k, ()) for kind, k in points]
    for _ in range(min(3, len(points))):
        kind, k = rng.choice(points)
        extra = tuple(rng.choice(points) for _ in range(rng.randrange(1, 3)))
        seqs.append((kind, k, extra))
    for kind, k, extra in seqs:
        ls, sh2 = build_state(world, prefix)
        m = ls.runner.mgr
        C.ARM[kind] = k
        # the class of the injected exception rotates over common built-in classes
        exc_cls = C.INJECTED_CLASSES[(k + len(prefix) + (0 if kind == "write" else 3)) % len(C.INJECTED_CLASSES)] if k > 0 or kind == "call" \
            else C.InjectedFault
        if kind == "call" and (k + len(prefix)) % 2 == 0:
            # a user function failing with ZeroDivisionError (inside an operand of / // % it must still reach the caller:
            # only the division node's OWN zero division yields nan)
            exc_cls = C.InjectedZeroDivisionError
        C.ARM["exc"] = exc_cls
        # one fault in three is raised WITHOUT arguments (raise Fault / raise Fault()): exc.args == ()
        C.ARM["bare"] = (k + 2 * len(prefix)) % 3 == 0
        if C.ARM["bare"]:
            counters["faults_raised_without_arguments"] = counters.get("faults_raised_without_arguments", 0) + 1
        counters.setdefault("fault_classes", {})
        counters["fault_classes"][exc_cls.__name__] = counters["fault_classes"].get(exc_cls.__name__, 0) + 1
        del C.EVENTS[:]
        raised = None
        try:
            ls.runner.exec_op(op)
        except Exception as exc:
            raised = exc
        C.ARM["write"] = C.ARM["call"] = None
        ev = list(C.EVENTS)
        fault_at = [i for i, e in enumerate(ev) if e[0] == "fault"]
        counters["crash_points_injected"] = counters.get("crash_points_injected", 0) + 1
        counters["crash_%s_faults" % kind] = counters.get("crash_%s_faults" % kind, 0) + 1
        wit = {"world": world, "ops": prefix, "update": op, "fault": [kind, k], "extra_faults": list(extra)}
        if not fault_at:
            violations.append(dict(wit, what="C18 armed %s fault %d never fired although the reference has %d such events"
                                   % (kind, k, n_w if kind == "write" else n_c)))
            return
        if raised is None:
            violations.append(dict(wit, what="C18 fault at %s #%d was swallowed: the assignment returned normally" % (kind, k)))
            return
        # "the exception reaches the caller": what the caller catches is (an instance of the class of) the exception the
        # failing task / write raised -- not another exception raised on the way (a caller's `except TheFault:` must fire)
        if not isinstance(raised, exc_cls):
            violations.append(dict(wit, what="C18 the %s fault #%d raised %s(%s) but the caller got %s: %s" % (
                kind, k, exc_cls.__name__, "" if C.ARM.get("bare") else "message", type(raised).__name__, str(raised)[:120])))
            return
        counters["exceptions_reaching_the_caller"] = counters.get("exceptions_reaching_the_caller", 0) + 1
        before = ev[:fault_at[0]]
        after = ev[fault_at[0] + 1:]
        if after:
            violations.append(dict(wit, what="C18 events after the failure at %s #%d: %s" % (kind, k, skeleton(after)[:4])))
            return
        counters["prefix_checks"] = counters.get("prefix_checks", 0) + 1
        if skeleton(before) != ref_skel[:len(before)]:
            violations.append(dict(wit, what="C18 events before the failure are not the reference prefix: %s vs %s" % (
                skeleton(before)[-3:], ref_skel[max(0, len(before) - 3):len(before)])))
            return
        # contents = initial contents + writes performed before the fault
        want = dict(pre_contents)
        for e in before:
            if e[0] == "w":
                want[loc_text(e)] = canon(e[3])
        got = {kk: canon(v) for kk, v in ls.runner.contents().items()}
        if got != want:
            violations.append(dict(wit, what="C18 contents after the failure differ from 'initial + first writes': %s" % (
                [(x, got.get(x), want.get(x)) for x in got if got.get(x) != want.get(x)][:3])))
            return
        d = defs_of(m)
        if d != post_defs and not (k == 0 and kind == "write" and d == pre_defs):
            violations.append(dict(wit, what="C18 definitions after the failure are neither the intended nor the previous ones"))
            return
        bad = mgrmon.index_violations(m)
        if bad:
            violations.append(dict(wit, what="C18 index supports inconsistent after the failure: %s" % bad[:3]))
            return
        try:
            m.verify()
        except Exception as exc:
            violations.append(dict(wit, what="C18 verify() raised after the failure: %s" % exc))
            return
        kf3_hit = knob_partial(before, m) if kind == "write" else False
        # further faulty updates in a row
        for kind2, k2 in extra:
            C.ARM[kind2] = k2
            try:
                ls.runner.exec_op(op)
            except Exception:
                pass
            if kind2 == "write":
                evs = list(C.EVENTS)
                fa = [i for i, e in enumerate(evs) if e[0] == "fault"]
                if len(fa) > 1 and knob_partial(evs[fa[-2] + 1:fa[-1]], m):
                    kf3_hit = True
            C.ARM["write"] = C.ARM["call"] = None
            counters["extra_faults_injected"] = counters.get("extra_faults_injected", 0) + 1
            bad = mgrmon.index_violations(m)
            if bad:
                violations.append(dict(wit, what="C18 index supports inconsistent after a sequence of failures: %s" % bad[:3]))
                return
        # fault gone: repeat the assignment
        try:
            ls.runner.exec_op(op)
        except Exception as exc:
            if kf3_hit and kf.is_open("KF3", ID) and isinstance(exc, (ArithmeticError, ValueError)) and not C.is_injected(exc):
                # KF3: the interrupted linear knob left its targets off by one increment; an expression evaluated on such a
                # value may be undefined there (0.0 ** -1, ...) although it is defined on the value the knob prescribes
                known.append(kf.known("KF3"))
                counters["kf3_crash_points"] = counters.get("kf3_crash_points", 0) + 1
                counters["kf3_repeat_raised_on_the_wrong_value"] = counters.get("kf3_repeat_raised_on_the_wrong_value", 0) + 1
                continue
            violations.append(dict(wit, what="C18 repeating the assignment after the failure raised %s: %s" % (
                type(exc).__name__, str(exc)[:200])))
            return
        counters["recoveries_checked"] = counters.get("recoveries_checked", 0) + 1
        got = {kk: canon(v) for kk, v in ls.runner.contents().items()}
        if got != expected:
            diff = [(x, got.get(x), expected.get(x)) for x in got if got.get(x) != expected.get(x)][:3]
            if kf3_hit and kf.is_open("KF3", ID):
                known.append(kf.known("KF3"))
                counters["kf3_crash_points"] = counters.get("kf3_crash_points", 0) + 1
            else:
                violations.append(dict(wit, what="C18 after the fault-free repeat dependants are not re-established: %s" % diff))
                return
        if k >= 1 or kind == "call":
            digests.add(digest([world, prefix, op, kind, k, list(extra)]))
    if len(samples) < 3 and n_w >= 3:
        samples.append({"update": op, "reference_events": ref_skel[:10], "write_positions": n_w, "call_positions": n_c})


def run_graph(rng, counters, digests, samples, violations, known):
    hg = gen.HistoryGen(rng, layered=True, depth=rng.choice([2, 3]), profile="plain",
                        weights={"define": 0.5, "ftask": 0.06, "knob": 0.06, "replace": 0.0, "iop": 0.05})
    prefix = []
    for _ in range(rng.randrange(6, 18)):
        op, exp = hg.next_op()
        if op is None:
            break
        prefix.append(op)
    counters["graphs"] = counters.get("graphs", 0) + 1
    base = hg.shadow
    for _ in range(rng.randrange(2, 5)):
        hg.shadow = base.clone()
        old = dict(hg.w)
        hg.w.clear()
        hg.w.update({"leafval": 0.6, "val": 0.15, "define": 0.25})
        op, exp = hg.next_op()
        hg.w.clear()
        hg.w.update(old)
        hg.shadow = base
        if op is None:
            continue
        one_update(hg.world, prefix, op, counters, digests, violations, known, rng, samples)
        if violations:
            return


def kf3_witness(known, counters, violations):
    """The open finding KF3: a fault between the target writes of one LinearKnob run."""
    from checks import c01
    world = c01.witness_world()
    I = gen.I
    prefix = [["knob", "K1", ["r", I("v0")], [P.enc(1.0), P.enc(2.0), P.enc(3.0)],
               [["r", I("t0")], ["r", I("t1")], ["r", I("t2")]]]]
    op = ["set", ["r", I("v0")], ["v", P.enc(7.5)]]
    v, k2 = [], []
    one_update(world, prefix, op, {}, set(), v, k2, random.Random(0), [])
    if any(x["kf"] == "KF3" for x in k2) and not v:
        known.append(kf.known("KF3"))
        counters["witness_KF3_reproduced"] = 1
    elif v:
        violations.extend(v)
    else:
        counters["witness_KF3_reproduced"] = 0


class _Refused(Exception):
    pass


def dual_access_case(rng, counters, digests, violations):
    """Containers reachable BOTH ways (a mapping with attribute access such as the library's own AttrDict, an object
    that also supports item access): a write refused through the access form the reference uses must be reported, must
    not be re-done through the other form, and everything scheduled after it must not run.  Every failing position,
    several exception classes (incl. AttributeError / KeyError / TypeError, what Python itself raises for refused
    attribute and item writes), both access forms."""
    import xdeps
    from xdeps.utils import AttrDict

    class GuardedAttrDict(AttrDict):
        """attribute writes to the names in _refuse raise; item writes are the same storage"""
        def __setattr__(self, k, v):
            if k != "__dict__" and k in REFUSE["attr"]:
                LOG.append(("refused", "attr", k))
                raise REFUSE["exc"]("attribute %r is read-only" % k)
            if k != "__dict__":
                LOG.append(("w", "attr", k))
            dict.__setattr__(self, k, v)

        def __setitem__(self, k, v):
            if k in REFUSE["item"]:
                LOG.append(("refused", "item", k))
                raise REFUSE["exc"]("item %r is read-only" % k)
            LOG.append(("w", "item", k))
            dict.__setitem__(self, k, v)

    class GuardedBoth(object):
        """an object whose fields can also be addressed as items"""
        def __init__(self, **kw):
            object.__setattr__(self, "_d", dict(kw))

        def __getattr__(self, k):
            try:
                return object.__getattribute__(self, "_d")[k]
            except KeyError:
                raise AttributeError(k)

        def __setattr__(self, k, v):
            if k in REFUSE["attr"]:
                LOG.append(("refused", "attr", k))
                raise REFUSE["exc"]("attribute %r is read-only" % k)
            LOG.append(("w", "attr", k))
            self._d[k] = v

        def __getitem__(self, k):
            return self._d[k]

        def __setitem__(self, k, v):
            if k in REFUSE["item"]:
                LOG.append(("refused", "item", k))
                raise REFUSE["exc"]("item %r is read-only" % k)
            LOG.append(("w", "item", k))
            self._d[k] = v

        def __contains__(self, k):
            return k in self._d

        def keys(self):
            return self._d.keys()

    REFUSE = {"attr": set(), "item": set(), "exc": _Refused}
    LOG = []
    names = ["x", "k", "l", "m"]
    for box_cls, form in ((GuardedAttrDict, "attr"), (GuardedAttrDict, "item"), (GuardedBoth, "attr"), (GuardedBoth, "item")):
        for exc_cls in (_Refused, AttributeError, KeyError, TypeError, ValueError, LookupError):
            for pos in range(4):
                REFUSE.update(attr=set(), item=set(), exc=exc_cls)
                box = box_cls(x=1.0, k=0.0, l=0.0, m=0.0)
                mgr = xdeps.Manager()
                e = mgr.ref(box, "e")
                loc = (lambda n: getattr(e, n)) if form == "attr" else (lambda n: e[n])
                if form == "attr":
                    e.k = 2 * e.x
                    e.l = e.k + 1
                    e.m = 10 * e.l
                else:
                    e["k"] = 2 * e["x"]
                    e["l"] = e["k"] + 1
                    e["m"] = 10 * e["l"]
                get = lambda: tuple(box[n] for n in names)
                if get() != (1.0, 2.0, 3.0, 30.0):
                    violations.append({"what": "C18 dual-access container (%s, %s form): initial values %s" % (box_cls.__name__, form, get())})
                    return
                defs0 = sorted(map(tuple, mgr.dump()))
                desc = "%s, refs in %s form, write of e.%s (position %d) refused with %s" % (box_cls.__name__, form, names[pos], pos, exc_cls.__name__)
                counters["dual_access_crash_points"] = counters.get("dual_access_crash_points", 0) + 1
                for attempt, newx in enumerate((3.0, 4.0)):        # two faulty updates in a row
                    REFUSE[form] = {names[pos]}
                    del LOG[:]
                    before = get()
                    raised = None
                    try:
                        if form == "attr":
                            e.x = newx
                        else:
                            e["x"] = newx
                    except Exception as exc:
                        raised = exc
                    want = list(before)
                    full = (newx, 2 * newx, 2 * newx + 1, 10 * (2 * newx + 1))
                    for i in range(pos):
                        want[i] = full[i]
                    problems = []
                    if raised is None:
                        problems.append("the update returned normally")
                    elif type(raised) is not exc_cls:
                        problems.append("the caller got %s instead of %s" % (type(raised).__name__, exc_cls.__name__))
                    if get() != tuple(want):
                        problems.append("contents %s, expected %s (writes before the failing one applied, the failing one and later ones not)" % (get(), tuple(want)))
                    if any(ev[0] == "w" for ev in LOG[[i for i, ev in enumerate(LOG) if ev[0] == "refused"][0] + 1:] if any(ev[0] == "refused" for ev in LOG)):
                        problems.append("writes were performed after the refused one: %s" % LOG)
                    if sorted(map(tuple, mgr.dump())) != defs0:
                        problems.append("definitions changed")
                    if problems:
                        violations.append({"what": "C18 %s (faulty update %d): %s" % (desc, attempt + 1, "; ".join(problems))})
                        return
                REFUSE[form] = set()
                if form == "attr":
                    e.x = 5.0
                else:
                    e["x"] = 5.0
                if get() != (5.0, 10.0, 11.0, 110.0):
                    violations.append({"what": "C18 %s: the fault-free repeat leaves %s, expected (5.0, 10.0, 11.0, 110.0)" % (desc, get())})
                    return
                digests.add(digest(["dual", box_cls.__name__, form, exc_cls.__name__, pos]))



def run_shard(spec):
    rng = random.Random("C18:%s:%s" % (spec["seed"], spec["shard"]))
    mgrmon.install_reach_counters()
    mgrmon.install_run_events()
    mgrmon.install_toposort(None, contract_every=0)
    counters, digests, samples, violations, known = {}, set(), [], [], []
    if spec.get("replay"):
        wit = spec["replay"]
        one_update(wit["world"], wit["ops"], wit["update"], counters, digests, violations, known, rng, samples)
        return {"evaluations": 1, "digests": [], "samples": [], "counters": counters, "violations": violations, "known": known}
    if spec["shard"] == 0 and kf.is_open("KF3", ID):
        kf3_witness(known, counters, violations)
    if spec["shard"] < 2:          # once per build (pure / compiled)
        dual_access_case(rng, counters, digests, violations)
    for g in range(spec["graphs"]):
        run_graph(rng, counters, digests, samples, violations, known)
        if len(violations) >= 5:
            break
    counters["anchors_reached"] = dict(mgrmon.REACH)
    return {"evaluations": counters.get("crash_points_injected", 0), "digests": sorted(digests), "samples": samples,
            "counters": counters, "violations": violations, "known": known}


TEXT = ("Fault enumeration: for every generated update every write position and every function-call position is "
        "injected (exhaustive per update; ~6 000 crash points quick, ~400 000 thorough), each on a fresh copy of the "
        "state, checking exception delivery, the event prefix against the fault-free reference, contents, "
        "definitions, index supports, verify() and recovery by a fault-free repeat against the pull-model shadow; "
        "plus random sequences of 2-3 faults in a row. The graphs and updates themselves are sampled."
        ' The injected fault rotates over subclasses of 11 exception classes (StopIteration, KeyError, AttributeError, OverflowError, TypeError, ValueError, IndexError, RuntimeError, LookupError, ArithmeticError, custom).')
NOTE = ("Trusted: fault injection through the tracing containers / function container (faults inside C-level code "
        "or outside container writes are not modelled); reference and faulted runs share process, hash seed and "
        "start order so their schedules coincide. KF3 (partial LinearKnob run) is classified by mechanism.")
TECHNIQUE = "runtime monitoring with fault injection: every write/evaluation position of each update faulted on a fresh state copy; recorded event prefix compared with the fault-free reference trace; recovery checked against the reference model"
