"""C09 — solve() returns only on a matched point and otherwise restores the knobs.

Monitors: an observer on the knob container and an independent re-evaluation of the user's
function by the harness.  If solve() returns, every active target re-evaluated at the knob values
found in the container must be within tolerance; if it raises (no point within tolerance, limit
violation, exception from the user's action injected at EVERY call position), knobs and active
flags must be those of log row 0.
"""
import random

import numpy as np

from vlib import optmon
from vlib.driver import digest

ID = "C09"
LEVEL = "fault_enumeration"
DECIDING = ("solves_returned_checked", "solves_failed_restore_checked", "action_faults_injected")
RULE = ("generated deterministic merit functions (linear consistent / inconsistent / rank-deficient, quadratic, "
        "trigonometric, pole-containing; 1-4 knobs, 1-5 targets; start points inside limits; limits, tolerances, "
        "knob and target weights, n_steps_max in {1,3,10,25}, Broyden off / on / every-k, disabled knobs and "
        "targets); for each problem the fault-free solve is checked and then the action is made to raise at EVERY "
        "call position k <= min(n_calls, 12) (transient and persistent), plus limits tightened after construction. "
        "Non-trivial = solve ran >= 1 Jacobian step; distinct = sha1 of the problem spec (+ fault position).")
ASSUMPTIONS = [
    "assert_within_tol and restore_if_fail at their defaults (True)",
    "tolerance test is the strict |f - v| < tol the code documents; restoration compared bit-exactly (4 eps relative for non-unit weights)",
]
TIMEOUT = {"quick": 900, "thorough": 5400}


def plan(tier, seed):
    if tier == "quick":
        return [{"mode": "pure", "hashseed": h, "problems": 110} for h in (0, 1, 2, 3)]
    return [{"mode": "pure", "hashseed": i % 8, "problems": 1900} for i in range(16)]


def row0(opt):
    lg = opt.log()
    return [float(v) for v in np.atleast_2d(lg["vary"])[0]], optmon.mask_from_string(str(lg["vary_active"][0])), \
        optmon.mask_from_string(str(lg["target_active"][0]))


def apply_disabled(S, spec, clear=True):
    dv = [i for i, x in enumerate(spec["dis_v"]) if x]
    dt = [i for i, x in enumerate(spec["dis_t"]) if x]
    if dv:
        S.opt.disable(vary_name=["k%d" % i for i in dv])
    if dt:
        S.opt.disable(target=dt)
    if (dv or dt) and clear:
        S.opt.clear_log()      # iteration 0 of the log = the state solve() starts from
    # (without clear_log, iteration 0 still records every knob and target as active: a failing solve must
    #  put exactly those flags back)


def check_solve(spec, counters, violations, fault_at=None, persistent=False, tighten=False, clear=True, second=None,
                presteps=None):
    """Run one solve; returns number of action calls of the run."""
    S = optmon.Setup(spec, fault_at=None)
    if presteps is not None:
        # knobs are MOVED by manual steps first and only then disabled (no clear_log): iteration 0 still
        # records the original point with every knob active, and that is what a failing solve must restore
        nsteps, extra = presteps
        try:
            S.opt.step(nsteps)
        except Exception:
            # a manual step may legitimately fail (e.g. a singular problem): step() is C10's business
            counters["presteps_raised"] = counters.get("presteps_raised", 0) + 1
            return 0
        clear = False
        if extra is not None and spec["n"] >= 2:
            S.opt.disable(vary_name=["k%d" % (extra % spec["n"])])
    apply_disabled(S, spec, clear)
    if second is not None:
        # a second solve after an earlier one (stale 'found a point' state must not leak): make the goal
        # unreachable (zero tolerance) or keep it
        if isinstance(second, list):
            # other optimizer entry points are used first (each may fail, which is their business): whatever they leave
            # behind, the solve() checked afterwards is an ordinary one with the default settings
            for name, arg in second[1]:
                try:
                    if name == "step_percall":
                        S.opt.step(arg, disable_vary=[0], disable_target=[0])
                    else:
                        getattr(S.opt, name)(n_steps=arg)
                    counters["prior_calls_returned"] = counters.get("prior_calls_returned", 0) + 1
                except Exception:
                    counters["prior_calls_raised"] = counters.get("prior_calls_raised", 0) + 1
            # solve_homotopy moves the target values: the checked solve is judged against the values the targets hold now
            S.spec = spec = dict(spec, tars=[float(t.value) for t in S.targets])
            # the unbounded scipy entry points may leave knobs outside their limits: not a start point for a solve
            for i, lim in enumerate(spec["limits"]):
                if lim is not None and not lim[0] <= S.cont[S.names[i]] <= lim[1]:
                    counters["prior_calls_left_knobs_outside_limits"] = counters.get("prior_calls_left_knobs_outside_limits", 0) + 1
                    return 0
        else:
            try:
                S.opt.solve(broyden=spec["broyden"])
            except Exception:
                pass
        if second == "zero-tol":
            for t in S.targets:
                t.tol = 0.0
            spec = dict(spec, tol=[0.0] * spec["m"])
        if second == "move-disabled":
            # between the two solves the user moves the DISABLED knobs (inside their limits); the active ones stay
            # where the first solve left them: a legal new start point
            moved = 0
            for i, v in enumerate(S.vary):
                if not v.active:
                    lim = spec["limits"][i]
                    lo, hi = (lim if lim is not None else (-1.0, 1.0))
                    cur = S.cont[S.names[i]]
                    new = lo + (hi - lo) * (0.3 if abs(cur - (lo + (hi - lo) * 0.3)) > 1e-3 else 0.7)
                    dict.__setitem__(S.cont, S.names[i], float(new))
                    moved += 1
            counters["second_solves_after_moving_disabled_knobs"] = counters.get("second_solves_after_moving_disabled_knobs", 0) + (1 if moved else 0)
        S.opt.clear_log()
    if tighten:
        # limit-violation branch: the current point is made to lie outside the (new) limits
        i = next((i for i, v in enumerate(S.vary) if v.active), 0)
        cur = S.cont[S.names[i]]
        S.vary[i].limits = np.array([cur + 0.5, cur + 1.5])
    k0, va0, ta0 = row0(S.opt)
    # iteration 0 was logged at construction (or at the last clear_log) and no knob moved since: it must hold the
    # knob values found in the container now (independent reading of "where the solve starts")
    #  -- bit-exact for unit weights, within rounding of the weight scaling (4 eps relative) otherwise, as the property says
    def _same_start(a, b, w):
        return a == b or (w != 1.0 and abs(a - b) <= 4 * np.finfo(float).eps * max(abs(a), abs(b)))
    if second is None and presteps is None and not tighten and \
            not all(_same_start(float(a), float(b), float(w)) for a, b, w in zip(S.knobs(), k0, spec["wv"])):
        violations.append({"what": "C09 iteration 0 of the log records knobs %s but the container held %s when it was logged" % (k0, S.knobs()),
                           "spec": spec})
        return 0
    calls0 = S.calls
    S.fault_at = None if fault_at is None else calls0 + fault_at
    S.persistent = persistent
    wit = {"spec": spec_json(spec), "fault_at": fault_at, "persistent": persistent, "tighten": tighten, "clear": clear, "second": second,
           "presteps": presteps}
    try:
        S.opt.solve(broyden=spec["broyden"])
        raised = None
    except Exception as exc:
        raised = exc
    S.fault_at = None
    ncalls = S.calls - calls0
    knobs = S.knobs()
    va, ta = S.flags()
    if raised is None:
        counters["solves_returned_checked"] = counters.get("solves_returned_checked", 0) + 1
        res = np.abs(S.residuals(knobs))
        tol = np.array(spec["tol"])
        bad = [i for i in range(spec["m"]) if ta[i] and not res[i] < tol[i]]
        if bad:
            violations.append(dict(wit, what="C09 solve() returned but target(s) %s re-evaluated at the knobs left in the container "
                                             "are off by %s (tolerances %s)" % (bad, [float(res[i]) for i in bad], [tol[i] for i in bad])))
        if fault_at is not None and ncalls >= fault_at:
            violations.append(dict(wit, what="C09 solve() returned normally although the action raised at call %d" % fault_at))
    else:
        if fault_at is None and isinstance(raised, (NameError, AttributeError, TypeError, KeyError, IndexError, UnboundLocalError)):
            # a solve may fail to converge or violate a limit (RuntimeError / ValueError / LinAlgError), not like this
            violations.append(dict(wit, what="C09 solve() raised %s: %s" % (type(raised).__name__, str(raised)[:150])))
        counters["solves_failed_restore_checked"] = counters.get("solves_failed_restore_checked", 0) + 1
        counters.setdefault("failure_kinds", {})
        kind = type(raised).__name__ + ":" + str(raised)[:40]
        counters["failure_kinds"][kind] = counters["failure_kinds"].get(kind, 0) + 1
        problems = []
        for i, (a, b) in enumerate(zip(knobs, k0)):
            exact = spec["wv"][i] == 1.0
            if a != b and (exact or abs(a - b) > 4 * np.finfo(float).eps * max(abs(a), abs(b))):
                problems.append("knob %d is %r, iteration 0 recorded %r" % (i, a, b))
        if va != va0:
            problems.append("knob active flags %s, iteration 0 recorded %s" % (va, va0))
        if ta != ta0:
            problems.append("target active flags %s, iteration 0 recorded %s" % (ta, ta0))
        if problems:
            violations.append(dict(wit, what="C09 solve() raised %s but did not restore iteration 0: %s" % (
                type(raised).__name__, "; ".join(problems))))
    return ncalls


def spec_json(spec):
    return spec


def guarded(violations, spec, fn, *a, **k):
    """API calls that are legal on every problem: an unexpected exception is itself a finding."""
    try:
        return fn(*a, **k)
    except Exception as exc:
        import traceback
        violations.append({"what": "C09 a legal sequence of optimizer API calls raised %s: %s" % (type(exc).__name__, str(exc)[:200]),
                           "spec": spec, "args": repr((a[1:], k))[:300], "traceback": traceback.format_exc()[-1500:]})
        return 0


def long_lived_case(rng, counters, violations):
    """ONE Optimize object used for a long session: dozens of solve() calls that fail (inconsistent targets), with tag() /
    step() / enable-disable in between, so that the log grows to well over a thousand rows.  After EVERY failing solve the
    knobs and flags are those of iteration 0 of the log -- the point recorded at construction, kept here independently -- and
    iteration 0 of the log still records exactly that."""
    n = rng.randrange(2, 4)
    m = n + rng.randrange(1, 3)
    spec = optmon.gen_problem(rng, families=("incons",))
    A = [[rng.uniform(-2, 2) for _ in range(n)] for _ in range(m)]
    A[-1] = list(A[0])                                     # two targets ask the same combination for different values
    spec.update({"n": n, "m": m, "kind": "incons", "A": A, "shift": [2.0] * m, "x0": [rng.uniform(-0.5, 0.5) for _ in range(n)],
                 "limits": [(-4.0, 4.0)] * n, "max_step": [None] * n, "wv": [rng.choice([1.0, 1.0, 0.25])] * n, "wt": [1.0] * m, "tol": [1e-9] * m,
                 "dis_v": [False] * n, "dis_t": [False] * m, "n_steps_max": rng.choice([20, 25, 40]), "broyden": False, "step": 1e-7})
    spec["tars"] = [float(v) for v in (np.array(A) @ np.array([0.3] * n))]
    spec["tars"][-1] += 1.0
    S = optmon.Setup(spec)
    unit = all(w == 1.0 for w in spec["wv"])
    k0 = [float(v) for v in S.knobs()]
    f0 = S.flags()
    r0 = row0(S.opt)

    def close(a, b):
        return a == b or (not unit and abs(a - b) <= 4 * np.finfo(float).eps * max(abs(a), abs(b)))
    rows = 0
    for call in range(rng.randrange(55, 75)):
        extra = rng.random()
        try:
            if extra < 0.2:
                S.opt.tag("t%d" % call)
            elif extra < 0.35:
                S.opt.step(2)
            elif extra < 0.45 and spec["m"] > 2:
                S.opt.disable(target=[1])
                S.opt.enable(target=[1])
        except Exception:
            pass
        try:
            S.opt.solve()
            counters["long_lived_solves_returned"] = counters.get("long_lived_solves_returned", 0) + 1
            continue
        except Exception as exc:
            if isinstance(exc, (NameError, AttributeError, UnboundLocalError, TypeError, IndexError, KeyError)):
                violations.append({"what": "C09 long-lived optimizer: solve() call %d raised %s: %s" % (call, type(exc).__name__, str(exc)[:150]), "spec": spec})
                return
        counters["long_lived_failed_solves_checked"] = counters.get("long_lived_failed_solves_checked", 0) + 1
        rows = len(S.opt._log["penalty"])
        now, fl = [float(v) for v in S.knobs()], S.flags()
        rr = row0(S.opt)
        if not all(close(a, b) for a, b in zip(now, k0)) or [list(x) for x in fl] != [list(x) for x in f0]:
            violations.append({"what": "C09 long-lived optimizer (%d log rows): after failing solve() call %d the knobs / flags are %s %s, iteration 0 recorded at construction is %s %s" % (
                rows, call, now, fl, k0, f0), "spec": spec})
            return
        if not all(close(a, b) for a, b in zip(rr[0], r0[0])) or rr[1:] != r0[1:]:
            violations.append({"what": "C09 long-lived optimizer (%d log rows): iteration 0 of the log now reads %s, at construction it read %s" % (rows, rr, r0), "spec": spec})
            return
    counters["long_lived_max_log_rows"] = max(counters.get("long_lived_max_log_rows", 0), rows)


def run_shard(spec_):
    rng = random.Random("C09:%s:%s" % (spec_["seed"], spec_["shard"]))
    optmon.quiet()
    optmon.install_lstsq_contract()
    counters, digests, samples, violations = {}, set(), [], []
    if spec_.get("replay"):
        w = spec_["replay"]
        check_solve(w["spec"], counters, violations, w.get("fault_at"), w.get("persistent", False), w.get("tighten", False),
                    w.get("clear", True), w.get("second"), w.get("presteps"))
        return {"evaluations": 1, "digests": [], "samples": [], "counters": counters, "violations": violations, "known": []}
    for _ in range(spec_.get("long_lived", 2)):
        guarded(violations, {"long_lived": True}, long_lived_case, random.Random(rng.random()), counters, violations)
    for p in range(spec_["problems"]):
        spec = optmon.gen_problem(rng, families=("lin", "quad", "trig", "pole", "incons", "rankdef", "pinned"))
        spec["split_actions"] = rng.random() < 0.35       # one action object per target instead of one for all
        n = guarded(violations, spec, check_solve, spec, counters, violations)
        counters["problems"] = counters.get("problems", 0) + 1
        if n >= 2:
            digests.add(digest(spec))
        for k in range(1, min(n, 12) + 1):
            for persistent in (False, True):
                guarded(violations, spec, check_solve, spec, counters, violations, fault_at=k, persistent=persistent)
                counters["action_faults_injected"] = counters.get("action_faults_injected", 0) + 1
                digests.add(digest([spec, k, persistent]))
        if rng.random() < 0.3:
            guarded(violations, spec, check_solve, spec, counters, violations, tighten=True)
            counters["limit_violation_runs"] = counters.get("limit_violation_runs", 0) + 1
        guarded(violations, spec, check_solve, spec, counters, violations, clear=False, fault_at=rng.choice([None, 1, 2, 3]))
        guarded(violations, spec, check_solve, spec, counters, violations, second=rng.choice(["zero-tol", "same"]))
        if spec["n"] >= 2:
            spec_d = dict(spec, dis_v=list(spec["dis_v"]))
            if not any(spec_d["dis_v"]):
                spec_d["dis_v"][rng.randrange(spec["n"])] = True
            guarded(violations, spec_d, check_solve, spec_d, counters, violations, second="move-disabled")
        counters["second_solve_runs"] = counters.get("second_solve_runs", 0) + 1
        menu = [["solve_homotopy", rng.choice([2, 3, 6])], ["run_simplex", 3], ["run_jacobian", 2], ["run_bfgs", 2], ["run_l_bfgs_b", 2],
                ["run_ls_trf", 2], ["step_percall", 2], ["solve_homotopy", 4]]
        for npri in (1, 2):
            prior = ["prior", [rng.choice(menu) for _ in range(npri)]]
            guarded(violations, spec, check_solve, spec, counters, violations, second=prior)
            counters["solves_after_other_entry_points"] = counters.get("solves_after_other_entry_points", 0) + 1
        for _ in range(2):
            guarded(violations, spec, check_solve, spec, counters, violations, fault_at=rng.choice([1, 2, 3, 5]),
                    persistent=rng.random() < 0.5, presteps=[rng.choice([1, 2]), rng.choice([None, 0, 1, 2, 3])])
            counters["moved_then_disabled_runs"] = counters.get("moved_then_disabled_runs", 0) + 1
        if len(samples) < 2:
            samples.append({"spec": {k: spec[k] for k in ("kind", "n", "m", "x0", "tars", "limits", "n_steps_max", "broyden")},
                            "action_calls_in_fault_free_solve": n})
        if len(violations) >= 8:
            break
    counters["lstsq_calls_checked"] = optmon.LSTSQ["calls"]
    for v in optmon.LSTSQ["violations"]:
        violations.append({"what": "C16 contract on SVD.lstsq (observed inside a C09 workload): " + v["what"], "lstsq": v})
    return {"evaluations": counters.get("solves_returned_checked", 0) + counters.get("solves_failed_restore_checked", 0),
            "digests": sorted(digests), "samples": samples, "counters": counters, "violations": violations[:12], "known": []}


TEXT = ("Fault enumeration: for each generated problem (~440 quick / ~30 000 thorough) the fault-free solve is checked by an "
        "independent re-evaluation of the merit function at the knob values left in the container, and the user's action "
        "is made to raise at every call position up to 12 (transient and persistent variants), checking that knobs and "
        "active flags equal log row 0; limit-violation failures are produced by tightening limits after construction. "
        "The problem families themselves are sampled."
        ' Plus moved-then-disabled scenarios (manual steps, disable without clear_log, faulted solve) and the family `pinned` (solution just beyond a limit, finite-difference step of the size of the tolerance). Plus solves after other entry points were used on the same object (solve_homotopy, run_simplex, run_jacobian, run_bfgs, run_l_bfgs_b, run_ls_trf, step with per-call arguments; each may fail).')
NOTE = ("Trusted: the harness's own deterministic merit function for re-evaluation; row 0 of opt.log() read before the "
        "solve as the reference for restoration.")
TECHNIQUE = "runtime monitoring with fault injection: independent re-evaluation oracle on return + action faults injected at every call position, restoration compared with the recorded log row 0"
