"""C07 — table rows addressed by name resolve against the CURRENT index column.

Monitor: reference model (linear scan of the raw current index column) evaluated after every
operation of sequences that interleave all lookup forms with every API mutation, with the cache
temperature tracked (a mutation only counts when the cache was warm before it and a lookup
follows).  Plus an exhaustive small scope.
"""
import itertools
import random

import numpy as np

from vlib import kf
from vlib import tableref as TR
from vlib.driver import digest

ID = "C07"
LEVEL = "exploration"
DECIDING = ("lookups_compared", "warm_mutations_followed_by_lookup", "labels_resolved")
RULE = ("random sequences (<= 14 ops) over tables of 0-8 rows interleaving lookups in every form (get_index "
        "string/tuple, table[col,row] read and write, table // row; present and absent names, counts positive, "
        "negative, out of range, offsets landing inside) with every mutation of the table API (whole index column by "
        "item and by attribute, single cells of the index column by position / name / tuple / slice / list, other "
        "cells, new column, del, pop, _append_row, _update); plus EXHAUSTIVE scope: every index column over a 3-name "
        "alphabet up to length 4 x every single mutation (cache warmed first) x every lookup. Tables DERIVED through the API "
        "(t*k, t+u, u+t, -t, rows.reverse(), rows[a:b], rows[list], rows[mask], cols[...], Table.concatenate) from a table whose "
        "name cache is warm replace the table under test; the source tables stay alive and are re-checked at the end. A sequence is "
        "non-trivial when a warm-cache mutation of the index column is followed by a lookup; distinct = sha1(names, ops).")
ASSUMPTIONS = [
    "index names do not contain the separators '::', '<<', '>>' (the literal-name-first rule of table[col,row] then coincides with the general rule)",
    "offsets landing outside the table are not generated",
]
TIMEOUT = {"quick": 600, "thorough": 3600}
NAMES = ["a", "b", "ab", "c"]
PUNCT_NAMES = ["mq.1", "mq.1:2", "mq", "a<b", "a>b", "a", "a:b", "b:1", "b", "x.y", "q-1", "m q", "k$", "[a]", "a|b", "a+",
               "", "", "1", "q1", "a1", "0", "-1", "é", "a" * 40]       # empty, digit-only / digit-ending, non-ASCII, long names


def plan(tier, seed):
    if tier == "quick":
        return [{"mode": "pure", "hashseed": 0, "part": "exhaustive", "maxlen": 3},
                {"mode": "pure", "hashseed": 1, "part": "random", "sequences": 2500},
                {"mode": "compiled", "hashseed": 2, "part": "random", "sequences": 2500}]
    return [{"mode": "pure", "hashseed": 0, "part": "exhaustive", "maxlen": 4}] + \
        [{"mode": "pure" if i % 2 else "compiled", "hashseed": i % 8, "part": "random", "sequences": 15000} for i in range(15)]


def make_table(names):
    from xdeps import Table
    n = len(names)
    return Table({"name": np.array(names, dtype=object), "x": np.arange(n, dtype=float), "y": np.zeros(n)})


def cur_names(t):
    return list(t._data["name"])


def rowtext(name, count, offset):
    return name + ("" if count is None else "::%d" % count) + ("" if not offset else (">>%d" % offset if offset > 0 else "<<%d" % -offset))


def do_lookup(t, form, name, count, offset):
    """Returns ('v', position) or ('e', exception type)."""
    s = rowtext(name, count, offset)
    tup = (name, 0 if count is None else count) + ((offset,) if offset else ())
    try:
        if form == "get_index_str":
            return ("v", int(t.rows.get_index(s)))
        if form == "get_index_tuple":
            return ("v", int(t.rows.get_index(tup)))
        if form == "floordiv_str":
            return ("v", int(t // s))
        if form == "floordiv_tuple":
            return ("v", int(t // tup))
        if form == "getitem_str":
            return ("v", int(t["x", s]))
        if form == "getitem_tuple":
            return ("v", int(t["x", tup]))
        if form in ("setitem_str", "setitem_tuple"):
            t._data["y"][:] = 0.0
            t["y", s if form == "setitem_str" else tup] = 7.0
            hit = [i for i, v in enumerate(t._data["y"]) if v == 7.0]
            t._data["y"][:] = 0.0
            return ("v", hit[0]) if len(hit) == 1 else ("e", "wrote %d cells" % len(hit))
    except Exception as exc:
        return ("e", type(exc).__name__)
    raise ValueError(form)


FORMS = ["get_index_str", "get_index_tuple", "floordiv_str", "floordiv_tuple", "getitem_str", "getitem_tuple",
         "setitem_str", "setitem_tuple"]


def expected_lookup(names, name, count, offset):
    try:
        return ("v", TR.resolve(names, name, count, offset))
    except KeyError:
        return ("e", "KeyError")


def apply_mutation(t, op):
    k = op[0]
    n = len(t)
    if k == "setcol":
        t["name"] = np.array(op[1], dtype=object)
    elif k == "setattr":
        t.name = np.array(op[1], dtype=object)
    elif k == "cellpos":
        t["name", op[1]] = op[2]
    elif k == "cellname":
        t["name", op[1]] = op[2]
    elif k == "celltuple":
        t["name", tuple(op[1])] = op[2]
    elif k == "cellslice":
        t["name", slice(op[1], op[2])] = op[3]
    elif k == "celllist":
        t["name", list(op[1])] = op[2]
    elif k == "iadd":
        # augmented whole-column assignment: Python updates the array in place and then assigns the SAME object back
        if op[2] == "attr":
            t.name += op[1]
        else:
            t["name"] += op[1]
    elif k == "imul":
        t["name"] *= op[1]
    elif k == "othercell":
        t["y", op[1]] = 0.0
    elif k == "newcol":
        t["w%d" % len(t._col_names)] = np.zeros(n)
    elif k == "delcol":
        ws = [c for c in t._col_names if c.startswith("w")]
        if ws:
            del t[ws[0]]
    elif k == "pop":
        ws = [c for c in t._col_names if c.startswith("w")]
        if ws:
            t.pop(ws[-1])
    elif k == "append":
        t._append_row({c: (op[1] if c == "name" else (float(n) if c == "x" else 0.0)) for c in t._col_names})
    elif k == "update":
        t._update({})
    elif k == "derive":
        return derive(t, op[1:])
    else:
        raise ValueError(op)
    return t


def derive(t, d):
    """A table DERIVED from t through the API (the source stays alive): its rows must resolve against its own column."""
    from xdeps import Table
    how = d[0]
    if how == "mul":
        r = t * d[1]
    elif how == "add":
        r = t + make_table(d[1])
    elif how == "radd":
        r = make_table(d[1]) + t
    elif how == "neg":
        r = -t
    elif how == "reverse":
        r = t.rows.reverse()
    elif how == "slice":
        r = t.rows[d[1]:d[2]]
    elif how == "take":
        r = t.rows[list(d[1])]
    elif how == "mask":
        r = t.rows[np.array(d[1], dtype=bool)]
    elif how == "cols":
        r = t.cols[["x", "y"]] if d[1] == "list" else t.cols["x y"]
    elif how == "concat":
        r = Table.concatenate([t, make_table(d[1])] if d[2] else [make_table(d[1]), t])
    else:
        raise ValueError(d)
    if "name" not in r._col_names or "x" not in r._col_names:
        raise AssertionError("derived table lost a column: %s" % r._col_names)
    # the harness' own position column (raw write to a NON-index column, so that table['x', row] reads the position)
    r._data["x"] = np.arange(len(r._data["name"]), dtype=float)
    return r


def derived_names(names, d):
    how = d[0]
    if how == "mul":
        return list(names) * d[1]
    if how == "add":
        return list(names) + list(d[1])
    if how == "radd":
        return list(d[1]) + list(names)
    if how in ("neg", "reverse"):
        return list(names)[::-1]
    if how == "slice":
        return list(names)[d[1]:d[2]]
    if how == "take":
        return [names[i] for i in d[1]]
    if how == "mask":
        return [q for q, m in zip(names, d[1]) if m]
    if how == "cols":
        return list(names)
    if how == "concat":
        return list(names) + list(d[1]) if d[2] else list(d[1]) + list(names)
    raise ValueError(d)


INDEX_MUTATIONS = ("setcol", "setattr", "cellpos", "cellname", "celltuple", "cellslice", "celllist", "append", "iadd", "imul", "derive")


def all_lookups(names, alphabet):
    n = len(names)
    for nm in alphabet + ["zz"]:
        for cnt in (None, 0, 1, -1, 2, -2, -3):
            for off in (0, 1, -1):
                yield nm, cnt, off


def check_lookups(t, lookups, forms, counters, wit):
    """Compare lookups with the reference; returns a violation dict or None."""
    names = cur_names(t)
    n = len(names)
    for nm, cnt, off in lookups:
        exp = expected_lookup(names, nm, cnt, off)
        if exp[0] == "v" and not 0 <= exp[1] < n:
            continue     # offset lands outside the table
        for form in forms:
            if form.endswith("tuple") and False:
                continue
            got = do_lookup(t, form, nm, cnt, off)
            counters["lookups_compared"] = counters.get("lookups_compared", 0) + 1
            if got != exp:
                return dict(wit, what="C07 %s(%r) on index column %s: got %s, a scan of the current column gives %s" % (
                    form, rowtext(nm, cnt, off), names, got, exp), lookup=[form, nm, cnt, off])
    return None


def check_labels(t, counters, wit):
    names = cur_names(t)
    try:
        labels = list(t.cols.get_index_unique())
    except Exception as exc:
        return dict(wit, what="C07 cols.get_index_unique() raised %s" % type(exc).__name__)
    want = TR.unique_labels(names)
    if labels != want:
        return dict(wit, what="C07 unique labels %s, expected %s for index column %s" % (labels, want, names))
    for i, lab in enumerate(labels):
        for form, fn in (("get_index", lambda: t.rows.get_index(lab)), ("floordiv", lambda: t // lab), ("getitem", lambda: t["x", lab])):
            counters["labels_resolved"] = counters.get("labels_resolved", 0) + 1
            try:
                got = int(fn())
            except Exception as exc:
                got = type(exc).__name__
            if got != i:
                return dict(wit, what="C07 unique label %r of row %d resolves to %r (%s) on index column %s" % (lab, i, got, form, names),
                            label=[lab, i, got, form])
    return None


def run_sequence(names0, ops, counters, replay=False, known=None):
    """Execute a recorded sequence; returns violation or None."""
    t = make_table(names0)
    warm = False
    pending = False
    sources = []
    for i, op in enumerate(ops):
        wit = {"names": names0, "ops": ops[:i + 1]}
        if op[0] == "look":
            v = check_lookups(t, [tuple(op[2:5])], [op[1]], counters, wit)
            if v:
                return v
            if pending:
                counters["warm_mutations_followed_by_lookup"] = counters.get("warm_mutations_followed_by_lookup", 0) + 1
                pending = False
            warm = True
        elif op[0] == "labels":
            v = check_labels(t, counters, wit)
            if v:
                return v
        elif op[0] == "bad":
            try:
                apply_mutation(t, op[1:])
                counters["failing_updates_that_did_not_fail"] = counters.get("failing_updates_that_did_not_fail", 0) + 1
            except Exception:
                counters["failing_updates"] = counters.get("failing_updates", 0) + 1
            if warm:
                pending = True
            if len(t._data["x"]) != len(t._data["name"]):
                return dict(wit, what="C07 columns out of step after a failing %s" % op[1])
        else:
            try:
                t2 = apply_mutation(t, op)
            except Exception as exc:
                return dict(wit, what="C07 mutation %s raised %s: %s" % (op[0], type(exc).__name__, str(exc)[:200]))
            if t2 is not t:
                if cur_names(t2) != derived_names(cur_names(t), op[1:]):
                    return dict(wit, what="C07 harness premise: derived table %s has index column %s, source %s" % (op[1:], cur_names(t2), cur_names(t)))
                if warm:
                    counters["derived_from_a_warm_source"] = counters.get("derived_from_a_warm_source", 0) + 1
                sources.append((t, cur_names(t), bool(np.shares_memory(t._data["name"], t2._data["name"]))))
                t = t2
            counters["mut_" + op[0]] = counters.get("mut_" + op[0], 0) + 1
            if warm and op[0] in INDEX_MUTATIONS:
                pending = True
            if len(t._data["x"]) != len(t._data["name"]):
                return dict(wit, what="C07 columns out of step after %s" % op[0])
    # the tables the later ones were derived from are still alive: they too resolve against THEIR current column
    for k, (src, snap, aliased) in enumerate(sources):
        wit = {"names": names0, "ops": ops, "source_table": k}
        nm = sorted(set(cur_names(src)) | set(snap)) + ["zz"]
        v = check_lookups(src, [(q, c, 0) for q in nm[:5] for c in (None, -1, 1)], ["get_index_str", "getitem_tuple"], counters, wit) \
            or check_labels(src, counters, wit)
        counters["source_tables_rechecked"] = counters.get("source_tables_rechecked", 0) + 1
        if v:
            # KF7 (open finding, by mechanism): the derived table shares the memory of the index column (numpy view / same
            # array), the source's column CHANGED through writes made on the derived table, and the source answers exactly
            # as a scan of its column at derivation time would (its name cache was never told)
            if aliased and cur_names(src) != snap and kf.is_open("KF7", ID) and stale_answer(src, snap, v):
                counters["kf7_source_tables"] = counters.get("kf7_source_tables", 0) + 1
                if known is not None:
                    known.append(kf.known("KF7"))
                continue
            v["what"] += " (a table another one was derived from, re-checked at the end; its column at derivation time was %s, memory shared: %s)" % (snap, aliased)
            return v
    return None


def stale_answer(src, snap, v):
    """True when the failing answer of `src` is exactly what a scan of its OLD column `snap` gives."""
    if "lookup" in v:
        form, nm, cnt, off = v["lookup"]
        return do_lookup(src, form, nm, cnt, off) == expected_lookup(snap, nm, cnt, off)
    if "label" in v:
        # the label (computed from the current column) resolved through the stale cache: the answer a scan of the OLD column gives
        lab, i, got, form = v["label"]
        try:
            old = int(TR.resolve_row(snap, lab))
        except KeyError:
            old = "KeyError"
        except Exception:
            return False
        return got == old
    try:
        return list(src.cols.get_index_unique()) == TR.unique_labels(snap)
    except Exception:
        return False


KF7_WITNESS = (["a", "b", "a", "c"], [["look", "floordiv_str", "c", None, 0], ["derive", "neg"], ["cellpos", 0, "z"],
                                      ["look", "get_index_str", "z", None, 0]])


def gen_sequence(rng):
    n = rng.randrange(0, 9)
    alphabet = NAMES[:rng.randrange(2, 5)]
    if rng.random() < 0.4:
        # element-style names with punctuation, including a SINGLE ':', '<' or '>' (not the separators '::', '<<', '>>')
        alphabet = rng.sample(PUNCT_NAMES, rng.randrange(2, 5))
    names0 = [rng.choice(alphabet) for _ in range(n)]
    names = list(names0)
    ops = []
    for _ in range(rng.randrange(4, 15)):
        n = len(names)
        x = rng.random()
        if x < 0.5 or n == 0:
            if n == 0 and x >= 0.5:
                names.append(rng.choice(alphabet))
                ops.append(["append", names[-1]])
                continue
            nm = rng.choice(alphabet + ["zz"] + sorted(set(names)))
            cnt = rng.choice([None, 0, 1, -1, 2, -2, 3, -4])
            off = rng.choice([0, 0, 0, 1, -1, 2])
            ops.append(["look", rng.choice(FORMS), nm, cnt, off])
        elif x < 0.55:
            ops.append(["labels"])
        else:
            k = rng.choice(["setcol", "setattr", "cellpos", "cellname", "celltuple", "cellslice", "celllist",
                            "othercell", "newcol", "delcol", "pop", "append", "update", "bad", "iadd", "imul", "derive"])
            if k == "derive":
                if any(c[0] in ("newcol",) for c in ops) or len(names) > 24:
                    continue       # tables combined by + / concatenate must have the same columns
                how = rng.choice(["mul", "add", "radd", "neg", "reverse", "slice", "take", "mask", "cols", "concat"])
                other = [rng.choice(alphabet) for _ in range(rng.randrange(0, 4))]
                if how == "mul":
                    d = ["mul", rng.choice([1, 2, 2, 3])]
                elif how in ("add", "radd"):
                    d = [how, other]
                elif how == "concat":
                    d = ["concat", other, rng.random() < 0.5]
                elif how == "slice":
                    a = rng.randrange(0, n + 1)
                    d = ["slice", a, rng.randrange(a, n + 1)]
                elif how == "take":
                    d = ["take", [rng.randrange(n) for _ in range(rng.randrange(1, n + 2))]]
                elif how == "mask":
                    d = ["mask", [rng.random() < 0.6 for _ in range(n)]]
                elif how == "cols":
                    d = ["cols", rng.choice(["list", "str"])]
                else:
                    d = [how]
                names = derived_names(names, d)
                ops.append(["derive"] + d)
            elif k == "bad":
                # an update that FAILS (absent row, position out of range, wrong number of values): whatever it left
                # behind, later lookups must follow the column as it is now
                kind = rng.choice(["cellname", "cellpos", "cellslice", "celltuple"])
                v = rng.choice(alphabet + ["new"])
                if kind == "cellname":
                    ops.append(["bad", "cellname", rng.choice(["zz", rng.choice(alphabet) + "::%d" % (n + 3), "zz::-1"]), v])
                elif kind == "cellpos":
                    ops.append(["bad", "cellpos", n + rng.randrange(1, 4), v])
                elif kind == "celltuple":
                    ops.append(["bad", "celltuple", [rng.choice(alphabet), n + 2], v])
                else:
                    a = rng.randrange(0, n)
                    ops.append(["bad", "cellslice", a, n, [v] * (n - a + 2)])
            elif k == "iadd":
                suffix = rng.choice(["_x", "1", ""])
                names = [q + suffix for q in names]
                ops.append([k, suffix, rng.choice(["attr", "item"])])
            elif k == "imul":
                names = [q * 2 for q in names]
                ops.append([k, 2])
            elif k in ("setcol", "setattr"):
                names = [rng.choice(alphabet) for _ in range(n)]
                ops.append([k, list(names)])
            elif k == "cellpos":
                i = rng.randrange(-n, n)
                v = rng.choice(alphabet + ["new"])
                names[i] = v
                ops.append([k, i, v])
            elif k in ("cellname", "celltuple"):
                nm = rng.choice(names)
                occ = [i for i, q in enumerate(names) if q == nm]
                c = rng.randrange(-len(occ), len(occ))
                v = rng.choice(alphabet + ["new"])
                names[occ[c]] = v
                ops.append([k, (rowtext(nm, c if (c or rng.random() < 0.5) else None, 0)) if k == "cellname" else [nm, c], v])
            elif k == "cellslice":
                a = rng.randrange(0, n)
                b = rng.randrange(a, n + 1)
                vals = [rng.choice(alphabet) for _ in range(b - a)]
                names[a:b] = vals
                ops.append([k, a, b, vals])
            elif k == "celllist":
                idx = rng.sample(range(n), rng.randrange(1, min(n, 3) + 1))
                vals = [rng.choice(alphabet) for _ in idx]
                for i, v in zip(idx, vals):
                    names[i] = v
                ops.append([k, idx, vals])
            elif k == "othercell":
                ops.append([k, rng.randrange(n)])
            elif k == "append":
                names.append(rng.choice(alphabet))
                ops.append([k, names[-1]])
            else:
                ops.append([k])
    # always end with lookups so that the last mutation is followed by one
    for _ in range(2):
        ops.append(["look", rng.choice(FORMS), rng.choice(alphabet + sorted(set(names))), rng.choice([None, 0, -1, 1]), 0])
    ops.append(["labels"])
    return names0, ops


def exhaustive(maxlen, counters, digests, violations, samples):
    alphabet = ["a", "b", "ab"]
    for L in range(0, maxlen + 1):
        for names0 in itertools.product(alphabet, repeat=L):
            names0 = list(names0)
            muts = [None, ["othercell", 0], ["newcol"], ["update"], ["append", "a"], ["append", "ab"]]
            if L:
                muts += [["setcol", names0[::-1]], ["setattr", names0[1:] + names0[:1]], ["setcol", ["b"] * L]]
                for i in range(L):
                    for v in alphabet:
                        if v != names0[i]:
                            muts += [["cellpos", i, v], ["cellslice", i, i + 1, [v]], ["celllist", [i], [v]]]
                lab = TR.unique_labels(names0)
                for i in range(L):
                    v = "ab" if names0[i] != "ab" else "a"
                    occ = [j for j, q in enumerate(names0) if q == names0[i]].index(i)
                    muts += [["cellname", lab[i], v], ["celltuple", [names0[i], occ], v]]
            muts += [["derive", "mul", 2], ["derive", "mul", 1], ["derive", "add", ["a", "ab"]], ["derive", "radd", ["b"]], ["derive", "neg"],
                     ["derive", "cols", "list"], ["derive", "concat", ["ab", "a"], True], ["derive", "slice", 0, L], ["derive", "slice", 1, L]]
            if L:
                muts += [["derive", "take", list(range(L))[::-1]], ["derive", "take", [0] * 2], ["derive", "mask", [i % 2 == 0 for i in range(L)]]]
            for mut in muts:
                if mut is not None and mut[0] == "othercell" and L == 0:
                    continue
                t = make_table(names0)
                wit = {"names": names0, "ops": ["<warm: all lookups>", mut]}
                # warm the cache with the complete lookup set, then mutate, then look everything up again
                v = check_lookups(t, all_lookups(names0, alphabet), ["get_index_str", "getitem_tuple"], counters, wit)
                if v is None and mut is not None:
                    try:
                        src = t
                        t = apply_mutation(t, mut)
                    except Exception as exc:
                        v = dict(wit, what="C07 mutation %s raised %s" % (mut, type(exc).__name__))
                    if v is None and t is not src:
                        counters["derived_from_a_warm_source"] = counters.get("derived_from_a_warm_source", 0) + 1
                        v = check_lookups(src, all_lookups(cur_names(src), alphabet), ["floordiv_str"], counters, wit)
                    if v is None:
                        counters["warm_mutations_followed_by_lookup"] = counters.get("warm_mutations_followed_by_lookup", 0) + 1
                        v = check_lookups(t, all_lookups(cur_names(t), alphabet), FORMS, counters, wit) or check_labels(t, counters, wit)
                elif v is None:
                    v = check_lookups(t, all_lookups(names0, alphabet), FORMS, counters, wit) or check_labels(t, counters, wit)
                counters["exhaustive_cases"] = counters.get("exhaustive_cases", 0) + 1
                if v:
                    violations.append(v)
                    if len(violations) >= 10:
                        return
                else:
                    digests.add(digest([names0, mut]))
    counters["exhaustive"] = True
    samples.append({"exhaustive_scope": "index columns over %s up to length %d x %s" % (alphabet, maxlen, "single mutation x all lookups")})


def run_shard(spec):
    rng = random.Random("C07:%s:%s" % (spec["seed"], spec["shard"]))
    counters, digests, samples, violations, known = {}, set(), [], [], []
    if spec.get("replay"):
        wit = spec["replay"]
        v = run_sequence(wit["names"], [op for op in wit["ops"] if isinstance(op, list)], counters, known=known)
        return {"evaluations": 1, "digests": [], "samples": [], "counters": counters, "violations": [v] if v else [], "known": known}
    if kf.is_open("KF7", ID):
        k0 = []
        v = run_sequence(KF7_WITNESS[0], KF7_WITNESS[1], {}, known=k0)
        if v:
            violations.append(v)
        known.extend(k0)
        counters["kf7_witness_reproduced"] = int(bool(k0))
    if spec["part"] == "exhaustive":
        exhaustive(spec["maxlen"], counters, digests, violations, samples)
    else:
        for s in range(spec["sequences"]):
            names0, ops = gen_sequence(rng)
            before = counters.get("warm_mutations_followed_by_lookup", 0)
            v = run_sequence(names0, ops, counters, known=known)
            counters["sequences"] = counters.get("sequences", 0) + 1
            if v:
                violations.append(v)
                if len(violations) >= 10:
                    break
            elif counters.get("warm_mutations_followed_by_lookup", 0) > before:
                digests.add(digest([names0, ops]))
            if len(samples) < 2 and len(ops) > 8:
                samples.append({"names": names0, "ops": ops[:8]})
    return {"evaluations": counters.get("sequences", 0) + counters.get("exhaustive_cases", 0), "digests": sorted(digests),
            "samples": samples, "counters": counters, "violations": violations, "known": known}


TEXT = ("Held on every lookup observed: exhaustive small scope (every index column over a 3-name alphabet up to "
        "length 3 quick / 4 thorough x every single mutation with a warm cache x every lookup form) plus ~5 000 "
        "(quick) / ~220 000 (thorough) random interleavings; every lookup is compared with a linear scan of the raw "
        "current index column and every unique label must resolve to its own row."
        " 40% of the random tables use element-style names with punctuation (single ':', '<', '>', '.', '|', '[', '$', space)."
        " Derived tables (products, sums, reversals, row / column selections, concatenations) of warm tables are looked up like any other, "
        "and their sources are re-checked afterwards (open finding KF7: index-column memory shared between a selection and its source).")
NOTE = "Trusted: the linear-scan reference (vlib/tableref.py) and reading the raw current column from table._data."
TECHNIQUE = "runtime monitoring: reference-model monitor (linear scan of the current index column) after every operation of interleaved lookup/mutation sequences with cache-temperature tracking + exhaustive small scope"
