"""C19 — MAD-X expressions mean the same deferred as evaluated immediately.

Monitor: three-way differential per grammar-derived string: immediate evaluation (MadxEval over
plain variables / elements / math), deferred evaluation (MadxEval over refs, then _get_value)
and -- for fully parenthesised strings -- Python's own value of the mirror term the generator
derived together with the string.  Re-checked after the variables change through the manager.
"""
import math
import random

import numpy as np
from collections import defaultdict

from vlib.driver import digest

ID = "C19"
LEVEL = "exploration"
DECIDING = ("strings", "deferred_vs_immediate_compared", "python_mirror_compared", "rounds_after_variable_change")
RULE = ("grammar-directed generation to depth 6 (sums, products, powers with ^ and **, stacked unary signs, every "
        "NUMBER form 12 / 1. / .5 / 1e3 / 1.e-3 / .5E+2, dotted and %-names, element->attribute, one- and "
        "two-argument functions, with and without whitespace and parentheses), in item and attribute element "
        "modes; each string is evaluated immediately and deferred before and after >= 3 rounds of variable / element "
        "changes made through the manager. Non-trivial = the string contains a variable or element access and "
        "evaluates to a number at least once; distinct = the string itself. Element changes include replacing a whole "
        "element by a new object through the manager.")
ASSUMPTIONS = [
    "only numbers are compared: when immediate evaluation raises ZeroDivisionError the deferred value is the one Python computes with NaN substituted at the dividing node (checked on parenthesised strings through the mirror term); any other exception must stop the deferred form too; exception types are not compared because constant sub-terms fold at parse time",
    "all variable / element values are floats (as in MAD-X), so that the sign of a zero can be compared strictly: mixed int/float arithmetic is where Cython 3.3's generated fast paths lose the sign of zero in the compiled build (toolchain artefact, DESIGN 8.2)",
    "Python's value is required only for fully parenthesised strings (operator precedence of MAD-X differs from Python's by design: unary minus binds tighter than ^, ^ is left associative)",
]
TIMEOUT = {"quick": 900, "thorough": 5400}

VARS = ["a", "b.c", "k%1", "x_1", ".p", "on_x1", "lrg"]
NUMS = ["12", "1.", ".5", "1e3", "1.e-3", ".5E+2", "0", "2", "3.25", "0.0", "1E0", "7"]
F1 = ["sin", "cos", "exp", "sqrt", "fabs", "atan", "log", "tan"]       # float -> float only (see same_number)
F2 = ["atan2", "hypot", "pow", "fmod"]
ELEMS = [("el", "a"), ("el", "b"), ("q.1", "k1"), ("q.1", "l")]
VALUES = [0.0, 1.0, -2.5, 3.0, 0.5, 2.0, -1.0, 1e3, 700.0, -0.0, 1e-8, -0.0, 0.0]


def plan(tier, seed):
    if tier == "quick":
        return [{"mode": "compiled", "hashseed": 0, "strings": 2500, "get": "item"},
                {"mode": "compiled", "hashseed": 1, "strings": 2500, "get": "attr"},
                {"mode": "pure", "hashseed": 2, "strings": 2500, "get": "item"},
                {"mode": "pure", "hashseed": 3, "strings": 2500, "get": "attr"}]
    return [{"mode": "compiled" if i % 2 == 0 else "pure", "hashseed": i % 8, "strings": 25000,
             "get": "item" if (i // 2) % 2 == 0 else "attr"} for i in range(16)]


class Elem:
    def __init__(self, **kw):
        self.__dict__.update(kw)


def sp(rng, ws):
    return rng.choice(["", " ", "  "]) if ws else ""


def gen(rng, d, paren, ws):
    """Returns (string, mirror term)."""
    if d == 0 or rng.random() < 0.2:
        k = rng.random()
        if k < 0.35:
            n = rng.choice(NUMS)
            return n, ("num", float(n))
        if k < 0.7:
            v = rng.choice(VARS)
            return v, ("var", v)
        e, a = rng.choice(ELEMS)
        return "%s%s->%s%s" % (e, sp(rng, ws), sp(rng, ws), a), ("el", e, a)
    k = rng.random()
    if k < 0.5:
        o = rng.choice(["+", "-", "*", "/", "^", "**"])
        s1, m1 = gen(rng, d - 1, paren, ws)
        s2, m2 = gen(rng, d - 1, paren, ws)
        s = "%s%s%s%s%s" % (s1, sp(rng, ws), o, sp(rng, ws), s2)
        if paren:
            s = "(%s)" % s
        return s, ("bin", o, m1, m2)
    if k < 0.65:
        o = rng.choice(["-", "+"])
        s1, m1 = gen(rng, d - 1, paren, ws)
        s = "%s%s%s" % (o, sp(rng, ws), s1)
        if paren:
            s = "(%s)" % s
        return s, ("un", o, m1)
    if k < 0.8:
        f = rng.choice(F1)
        s1, m1 = gen(rng, d - 1, paren, ws)
        return "%s(%s)" % (f, s1), ("call", f, m1)
    if k < 0.9:
        f = rng.choice(F2)
        s1, m1 = gen(rng, d - 1, paren, ws)
        s2, m2 = gen(rng, d - 1, paren, ws)
        return "%s(%s,%s%s)" % (f, s1, sp(rng, ws), s2), ("call", f, m1, m2)
    s1, m1 = gen(rng, d - 1, paren, ws)
    return "(%s)" % s1, m1


def hasvar(m):
    """Is the sub-term deferred?  Variables, element accesses -- and calls: the function container is a ref,
    so a call is never folded at parse time even if its arguments are constants."""
    if m[0] in ("var", "el", "call"):
        return True
    if m[0] == "num":
        return False
    return any(hasvar(x) for x in m[2:])


def same_number(a, b):
    if isinstance(a, np.ndarray) or isinstance(b, np.ndarray):
        # array-valued variables (element-wise arithmetic): same type, dtype, shape and elements (NaN equal to NaN)
        if not (isinstance(a, np.ndarray) and isinstance(b, np.ndarray)) or a.dtype != b.dtype or a.shape != b.shape:
            return False
        with np.errstate(all="ignore"):
            return bool(np.all((a == b) | ((a != a) & (b != b))))
    if isinstance(a, bool) or isinstance(b, bool):
        return a is b
    if type(a) is not type(b):
        return False
    if isinstance(a, complex):
        return (a == b) or (a != a and b != b)
    if isinstance(a, float) and a == 0 and b == 0:
        # MAD-X arithmetic is float-only here (variables, numbers and functions are floats), which is IEEE-exact
        # in both builds: the sign of a zero IS compared (a dropped "0 +" turns +0.0 into -0.0 and atan2 /
        # copysign turn that into a different number)
        return math.copysign(1, a) == math.copysign(1, b)
    return a == b or (a != a and b != b)


def isnan(x):
    try:
        if isinstance(x, np.ndarray):
            return bool(np.all(x != x))
        return x != x
    except Exception:
        return False


def run(f):
    try:
        return ("v", f())
    except RecursionError:
        raise
    except Exception as exc:
        return ("e", type(exc).__name__)


def run_shard(spec):
    import xdeps
    from xdeps.madxutils import MadxEval
    rng = random.Random("C19:%s:%s" % (spec["seed"], spec["shard"]))
    counters, digests, samples, violations = {}, set(), [], []
    get = spec.get("get", "item")
    mgr = variables = elements = vref = eref = madexpr = madeval = None

    def new_env(first=False):
        """A fresh, independent environment (manager, containers, parsers) with the SAME container labels as
        every earlier one; earlier environments stay alive (several sequences in one process)."""
        nonlocal mgr, variables, elements, vref, eref, madexpr, madeval
        mgr = xdeps.Manager()
        # one environment in four also holds numpy values (float64 scalars, 1-d and 2-d arrays: element-wise arithmetic)
        ARR[0] = (not first) and rng.random() < 0.25
        if ARR[0]:
            counters["environments_with_numpy_values"] = counters.get("environments_with_numpy_values", 0) + 1
        vals = {v: (1.0 if first else pick()) for v in VARS}
        if first:
            vals.update({"a": 2.0, "b.c": -4.0, "k%1": 3.0, "x_1": 0.5, ".p": 0.0, "on_x1": 1.0, "lrg": 700.0})
        ev = (lambda x: x) if first else (lambda x: pick())
        if get == "attr":
            els = {"el": Elem(a=ev(1.5), b=ev(2.5)), "q.1": Elem(k1=ev(-0.25), l=ev(0.0))}
        else:
            els = {"el": {"a": ev(1.5), "b": ev(2.5)}, "q.1": {"k1": ev(-0.25), "l": ev(0.0)}}
        # half of the environments build their evaluators over still EMPTY containers and fill them afterwards
        # (as a sequence loader does): the evaluators must see what the containers hold when an expression is evaluated
        late = (not first) and rng.random() < 0.5
        variables, elements = ({}, {}) if late else (dict(vals), dict(els))
        vref = mgr.ref(variables, "v")
        eref = mgr.ref(elements, "e")
        fref = mgr.ref(math, "f")
        madexpr = MadxEval(vref, fref, eref, get=get).eval
        madeval = MadxEval(variables, math, elements, get=get).eval
        if late:
            counters["environments_filled_after_building_the_evaluators"] = counters.get("environments_filled_after_building_the_evaluators", 0) + 1
            for k, v in vals.items():
                if rng.random() < 0.5:
                    vref[k] = v
                else:
                    variables[k] = v
            for k, v in els.items():
                if rng.random() < 0.5:
                    eref[k] = v
                else:
                    elements[k] = v
        ENVS.append((mgr, variables, elements))
        counters["environments"] = counters.get("environments", 0) + 1
    ENVS = []
    ARR = [False]

    def pick():
        v = rng.choice(VALUES)
        if ARR[0] and rng.random() < 0.3:
            k = rng.random()
            if k < 0.3:
                return np.float64(v)
            if k < 0.8:
                return np.array([v, rng.choice(VALUES)], dtype=float)
            return np.array([[v, rng.choice(VALUES)], [rng.choice(VALUES), 1.0]], dtype=float)
        return v
    new_env(first=True)

    def elem_value(e, a):
        return getattr(elements[e], a) if get == "attr" else elements[e][a]

    def py(m, deferred):
        t = m[0]
        if t == "num":
            return m[1]
        if t == "var":
            return variables[m[1]]
        if t == "el":
            return elem_value(m[1], m[2])
        if t == "un":
            v = py(m[2], deferred)
            return -v if m[1] == "-" else +v
        if t == "call":
            return getattr(math, m[1])(*[py(x, deferred) for x in m[2:]])
        a, b = py(m[2], deferred), py(m[3], deferred)
        o = m[1]
        if o == "+":
            return a + b
        if o == "-":
            return a - b
        if o == "*":
            return a * b
        if o == "/":
            try:
                return a / b
            except ZeroDivisionError:
                if deferred and hasvar(m):
                    return float("nan")
                raise
        return a ** b

    def change_something():
        k = rng.random()
        if k < 0.6:
            v = rng.choice(VARS)
            vref[v] = pick()            # through the manager
        elif k < 0.75:
            # the whole element is replaced by a NEW object (through the manager): expressions built earlier must
            # read the element that is there now
            e = rng.choice(["el", "q.1"])
            attrs = {a: pick() for (ee, a) in ELEMS if ee == e}
            eref[e] = Elem(**attrs) if get == "attr" else dict(attrs)
            counters["whole_elements_replaced"] = counters.get("whole_elements_replaced", 0) + 1
        else:
            e, a = rng.choice(ELEMS)
            val = pick()
            if get == "attr":
                setattr(eref[e], a, val)
            else:
                eref[e][a] = val

    n = spec["strings"] if not spec.get("replay") else 400
    for i in range(n):
        if i and i % 150 == 0:
            new_env()
        paren = rng.random() < 0.5
        ws = rng.random() < 0.5
        s, m = gen(rng, rng.randint(1, 6), paren, ws)
        counters["strings"] = counters.get("strings", 0) + 1
        wit = {"string": s, "get": get, "parenthesised": paren}
        built = run(lambda: madexpr(s))
        nontrivial = False
        for rnd in range(4):
            if rnd:
                change_something()
                counters["rounds_after_variable_change"] = counters.get("rounds_after_variable_change", 0) + 1
            imm = run(lambda: madeval(s))
            if built[0] == "e":
                de = built       # building the deferred form folds constants: it may raise at parse time
                if rnd:
                    de = run(lambda: madexpr(s))
            else:
                e = built[1]
                de = run(lambda: e._get_value() if hasattr(e, "_get_value") else e)
            counters["deferred_vs_immediate_compared"] = counters.get("deferred_vs_immediate_compared", 0) + 1
            state = {"variables": dict(variables)}
            if imm[0] == "v":
                if de[0] != "v" or not same_number(de[1], imm[1]):
                    violations.append(dict(wit, what="C19 %r: immediate %r, deferred %r (round %d)" % (s, imm, de, rnd), **state))
                    break
                if hasvar(m):
                    nontrivial = True
            else:
                counters["immediate_raises"] = counters.get("immediate_raises", 0) + 1
                # A zero division yields NaN at ITS node when deferred; NaN then propagates by Python's own
                # rules (nan ** 0 == 1.0, hypot, ...), so the final deferred value is only pinned down by the
                # mirror term (parenthesised strings, below).  Any other exception must also stop the deferred form.
                if imm[1] != "ZeroDivisionError" and de[0] == "v" and not isnan(de[1]):
                    violations.append(dict(wit, what="C19 %r: immediate evaluation raises %s but the deferred form gives %r (round %d)" % (
                        s, imm[1], de[1], rnd), **state))
                    break
                if de[0] == "v":
                    counters["nan_for_zero_division"] = counters.get("nan_for_zero_division", 0) + 1
            if paren:
                counters["python_mirror_compared"] = counters.get("python_mirror_compared", 0) + 1
                pi, pd = run(lambda: py(m, False)), run(lambda: py(m, True))
                ok_i = (pi[0] == imm[0]) and (pi[0] == "e" or same_number(pi[1], imm[1]))
                ok_d = (pd[0] == "v" and de[0] == "v" and same_number(pd[1], de[1])) or (pd[0] == "e" and (de[0] == "e" or isnan(de[1])))
                if not ok_i or not ok_d:
                    violations.append(dict(wit, what="C19 fully parenthesised %r: Python gives %r / %r (deferred rule), immediate %r, deferred %r" % (
                        s, pi, pd, imm, de), **state))
                    break
        if nontrivial:
            digests.add(digest(s))
        if len(samples) < 4 and len(s) > 25 and nontrivial:
            samples.append(s)
        if len(violations) >= 8:
            break
    return {"evaluations": counters.get("deferred_vs_immediate_compared", 0), "digests": sorted(digests), "samples": samples,
            "counters": counters, "violations": violations, "known": []}


TEXT = ("Held on every evaluation observed: ~10 000 (quick) / ~400 000 (thorough) grammar-derived strings x 4 rounds "
        "(before and after changes made through the manager), in item and attribute element modes and both builds: "
        "deferred vs immediate numbers, and Python's value of the generator's mirror term for the fully parenthesised "
        "half. Exploration up to depth 6."
        ' A fresh environment (manager, containers, parsers; same container labels, other values) replaces the current one every 150 strings while the earlier ones stay alive.'
        ' One environment in four holds numpy float64 scalars and 1-d / 2-d arrays (element-wise arithmetic).')
NOTE = ("Trusted: the generator's mirror terms (derived together with the strings) and Python's math module as reference; "
        "exception types are deliberately not compared.")
TECHNIQUE = "runtime monitoring: three-way differential oracle per generated MAD-X string (deferred vs immediate vs Python mirror), re-evaluated after variable changes through the manager"
