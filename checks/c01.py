"""C01 — expression-defined locations always equal their definition on current data.

Monitor: shadow pull model (M1) compared with the real containers after EVERY assignment,
over ALL tracked locations; plus closed-form oracles on very long chains / fans / lattices.
"""
import random
import time

from vlib import containers as C
from vlib import gen, kf, lockstep, mgrmon
from vlib.driver import digest
from vlib.values import canon, enc

ID = "C01"
LEVEL = "exploration"
DECIDING = ("assignments_compared", "stress_locations_compared")
RULE = ("random assignment histories (value / expression / in-place / removal / re-definition / "
        "function task / linear knob / container replacement) over nested dict, list and attribute "
        "containers, ~70% layered worlds and ~30% unrestricted acyclic worlds; after every assignment "
        "all locations are compared (value and type) with a pull-model shadow. A history is non-trivial "
        "when it holds >= 3 expression definitions and >= 1 assignment that ran >= 1 task; distinct = "
        "sha1 of (world, ops). Plus chains / reverse-defined chains / fans / lattices of thousands of "
        "dependants with closed-form oracles.")
ASSUMPTIONS = [
    "containers are only written through refs (premise of the property)",
    "the shadow applies Python's own operators to the same operand values; sign of zero is not compared",
    "operations for which Python itself raises are discarded before execution (counted)",
    "expression nesting bounded (<= 30 levels)",
]
TIMEOUT = {"quick": 900, "thorough": 5400}

KF1_WITNESS = {
    "ops": [
        ["set", ["r", gen.I("n"), gen.I("x")], ["t", ["bin", "mul", ["ref", ["r", gen.I("v0")]], ["lit", 2]]]],
        ["set", ["r", gen.I("n"), gen.I("z")], ["t", ["bin", "mul", ["ref", ["r", gen.I("n"), gen.I("y")]], ["lit", 3]]]],
        ["set", ["r", gen.I("n"), gen.I("y")], ["t", ["bin", "add", ["ref", ["r", gen.I("n"), gen.I("x")]], ["lit", 1]]]],
        ["set", ["r", gen.I("v0")], ["v", enc(5.0)]],
    ]}
KF5_WITNESS = {
    "ops": [
        ["set", ["r", gen.I("t0")], ["t", ["bin", "add", ["ref", ["r", ["k", ["r", gen.I("kt")]]]], ["lit", 1]]]],
        ["set", ["r", gen.I("kt")], ["v", enc("v1")]],
        ["set", ["r", gen.I("v1")], ["v", enc(42.0)]],
    ]}
KF6_WITNESS = {
    "ops": [
        ["set", ["r", gen.I("t0")], ["t", ["call", "tot", [["ref", ["r", gen.I("d")]]], []]]],
        ["knob", "K1", ["r", gen.I("v0")], [enc(1.0)], [["r", gen.I("d"), gen.I("g")]]],
        ["set", ["r", gen.I("v0")], ["v", enc(5.0)]],
    ]}


_R = lambda *steps: ["r"] + [gen.I(x) if not (isinstance(x, str) and x.startswith(".")) else gen.A(x[1:]) for x in steps]
# witnesses of repaired defects (known_findings.json status=fixed): plain regression cases
REGRESSIONS = {
    "F02-unregister-stale-rtasks": [
        ["set", _R("o", ".q"), ["t", ["un", "invert", ["bin", "sub", ["lit", 1], ["ref", _R("i1")]]]]],
        ["set", _R("d", "m", "w"), ["t", ["bin", "gt", ["ref", _R("o", ".q")], ["bin", "eq", ["lit", 3], ["ref", _R("v0")]]]]],
        ["unreg", _R("d", "m", "w")],
        ["set", _R("i1"), ["v", 2]]],
    "F03-round-without-ndigits": [
        ["set", _R("o", ".p"), ["t", ["bi", "round", ["un", "pos", ["ref", ["a", gen.A("g0")]]]]]]],
    "F05-builtin-params-dependencies": [
        ["set", _R("t1"), ["t", ["bi", "round", ["bin", "mul", ["ref", _R("v0")], ["lit", enc(1.23456)]], ["ref", _R("i1")]]]],
        ["set", _R("i1"), ["v", 3]],
        ["set", _R("n", "y"), ["t", ["bi", "divmod", ["ref", _R("v1")], ["ref", _R("l", 0)]]]],
        ["set", _R("l", 0), ["v", enc(0.75)]]],
}


def plan(tier, seed):
    if tier == "quick":
        shards = [{"mode": "compiled", "hashseed": 0, "histories": 450, "stress": "small"},
                  {"mode": "compiled", "hashseed": 1, "histories": 450, "stress": None},
                  {"mode": "pure", "hashseed": 2, "histories": 450, "stress": None},
                  {"mode": "compiled", "hashseed": 3, "histories": 0, "stress": "chains"}]
    else:
        shards = []
        for i in range(28):
            shards.append({"mode": "compiled" if i % 2 == 0 else "pure", "hashseed": i % 8,
                           "histories": 1500, "stress": None})
        shards.append({"mode": "compiled", "hashseed": 0, "histories": 0, "stress": "big"})
        shards.append({"mode": "pure", "hashseed": 5, "histories": 0, "stress": "big"})
        shards.append({"mode": "compiled", "hashseed": 3, "histories": 0, "stress": "lattice"})
        shards.append({"mode": "pure", "hashseed": 6, "histories": 0, "stress": "chains"})
    return shards


# ---------------------------------------------------------------------------------------
def classify(failure, op, ls, shadow):
    """Returns a known-finding dict or None (=> violation)."""
    if failure["kind"] == "mismatch":
        texts = [m[0] for m in failure["mismatches"]]
        if kf.is_open("KF5", ID) and kf.kf5(shadow, op, texts):
            return kf.known("KF5")
        if kf.is_open("KF6", ID) and kf.kf6(shadow, failure["run_order"], texts):
            return kf.known("KF6")
        if kf.is_open("KF1", ID):
            ok, why, inv = kf.kf1(ls.runner.mgr, failure["run_order"], shadow, ls.runner)
            failure["kf1_analysis"] = why
            if ok:
                return kf.known("KF1")
    if failure["kind"] == "exception" and kf.is_open("KF5", ID) and failure.get("exc_type") not in [c.__name__ for c in C.INJECTED_CLASSES] \
            and kf.kf5_exception(shadow, op, failure["run_order"]):
        return kf.known("KF5", "a task evaluated on the stale value of such a definition raised")
    if failure["kind"] == "exception" and kf.is_open("KF1", ID) and op[0] in ("set", "iop"):
        ok, why, inv = kf.kf1_premature(ls.runner.mgr, failure["run_order"], shadow, ls.runner, op[1])
        failure["kf1_analysis"] = why
        if ok:
            return kf.known("KF1", "a task evaluated before its producer raised on the stale input")
        # the inversion may lie among the tasks that already ran (a task ran before its producer, then a consumer of its
        # stale result raised): same analysis on the observed order
        ok, why2, inv = kf.kf1(ls.runner.mgr, failure["run_order"], shadow, ls.runner)
        failure["kf1_analysis"] = why + "; observed order: " + why2
        if ok:
            return kf.known("KF1", "a task downstream of one evaluated before its producer raised on the stale value")
    return None


def run_history(rng, counters, digests, samples, violations, known, spec, layered, nops):
    import os
    # one world in five uses integer keys whose refs collide in hash (-1 / -2, 0 / 2**61-1) for sibling locations
    tw = rng.random() < 0.2
    if tw:
        counters["worlds_with_hash_colliding_sibling_keys"] = counters.get("worlds_with_hash_colliding_sibling_keys", 0) + 1
    hg = gen.HistoryGen(rng, layered=layered, depth=rng.choice([2, 3, 3, 4]),
                        profile="full" if layered else "safe", world=gen.make_world(rng, layered, twins=True) if tw else None,
                        weights={"ftask": 0.0, "knob": 0.0} if os.environ.get("VERIF_C01_NO_TASKS") else None)
    ls = lockstep.LockStep(hg.world)
    ran_tasks = 0
    for step in range(nops):
        op, exp = hg.next_op()
        if op is None:
            break
        f = ls.step(op, exp)
        counters["ops_" + op[0]] = counters.get("ops_" + op[0], 0) + 1
        if ls.run_order():
            ran_tasks += 1
        if f:
            k = classify(f, op, ls, hg.shadow)
            if k:
                known.append(k)
                counters["histories_cut_by_known_finding"] = counters.get("histories_cut_by_known_finding", 0) + 1
            else:
                world, ops = hg.world, list(ls.ops)
                kind = f["kind"]
                try:
                    small = lockstep.shrink_history(
                        world, ops, lambda g, l2, s2: g["kind"] == kind and classify(g, l2.ops[-1], l2, s2) is None)
                except Exception:
                    small = ops
                f2 = None
                try:
                    f2 = lockstep.replay_history(world, small)[0]
                except Exception:
                    pass
                violations.append({"what": "C01 %s after %s: %s" % (kind, op[0], (f2 or f)),
                                   "world": world, "ops": small, "failure": f2 or f, "layered": layered})
            break
    for k, v in hg.discards.items():
        counters.setdefault("discarded", {})
        counters["discarded"][k] = counters["discarded"].get(k, 0) + v
    ndefs = sum(1 for o in ls.ops if o[0] == "set" and o[2][0] == "t")
    counters["histories"] = counters.get("histories", 0) + 1
    counters["layered_histories" if layered else "free_histories"] = \
        counters.get("layered_histories" if layered else "free_histories", 0) + 1
    if not layered and mgrmon.has_structural_cycle(ls.runner.mgr):
        counters["free_histories_with_rtasks_cycle"] = counters.get("free_histories_with_rtasks_cycle", 0) + 1
    if ndefs >= 3 and ran_tasks >= 1:
        digests.add(digest([hg.world, ls.ops]))
    if len(samples) < 2 and ndefs >= 3:
        samples.append({"ops": ls.ops[:12], "n_ops": len(ls.ops)})


def witness_world():
    rng = random.Random("witness")
    return gen.make_world(rng, True, n_flat=4)[0]


def run_witness(name, wit, kfid, known, counters, violations):
    """Open finding: run its fixed witness (under several start-set orders) so that the
    KNOWN-FINDING line appears on every run; a fixed finding would be a plain regression."""
    world = witness_world()
    reproduced = False
    for trial in range(12):
        mgrmon.set_shuffle_rng(random.Random(trial))
        try:
            f, i, ls, sh = lockstep.replay_history(world, wit["ops"])
        except ValueError as exc:
            violations.append({"what": "witness %s not executable: %s" % (name, exc)})
            return
        if f:
            k = classify(f, wit["ops"][i], ls, sh)
            if k and k["kf"] == kfid:
                reproduced = True
                known.append(k)
                break
            violations.append({"what": "witness %s failed but not as %s: %s" % (name, kfid, f),
                               "world": world, "ops": wit["ops"], "failure": f})
            return
    counters["witness_%s_reproduced" % kfid] = int(reproduced)


# ---------------------------------------------------------------------------------------
def stress(kind, rng, counters, violations, digests, samples):
    """Closed-form oracles on very deep / wide graphs (float arithmetic on small integers is
    exact, so the expected values are computed independently by plain loops)."""
    import xdeps
    t0 = time.time()

    def check(name, d, expect):
        bad = [(k, d[k], v) for k, v in expect.items() if canon(d.get(k)) != canon(v)]
        counters["stress_locations_compared"] = counters.get("stress_locations_compared", 0) + len(expect)
        if bad:
            violations.append({"what": "C01 stress %s: %d stale locations, first %r" % (name, len(bad), bad[:3]),
                               "stress": name})
        return not bad

    def guarded(name, fn):
        try:
            fn()
        except Exception as exc:
            violations.append({"what": "C01 stress %s raised %s: %s" % (name, type(exc).__name__, str(exc)[:300]),
                               "stress": name, "exc_type": type(exc).__name__})
        counters["stress_scenarios"] = counters.get("stress_scenarios", 0) + 1
        digests.add(digest(["stress", name]))

    sizes = {"small": [1500], "chains": [4000], "big": [10000, 2500], "lattice": []}[kind]
    for n in sizes:
        def chain(n=n):
            m = xdeps.Manager()
            d = {"c0": 1.0}
            r = m.ref(d, "r")
            for i in range(1, n + 1):
                r["c%d" % i] = r["c%d" % (i - 1)] + 1
            check("chain-%d-build" % n, d, {"c%d" % i: 1.0 + i for i in range(n + 1)})
            for v in (5.0, -2.0):
                r["c0"] = v
                check("chain-%d-set" % n, d, {"c%d" % i: v + i for i in range(n + 1)})
            r["c%d" % (n // 2)] = 100.0      # value over an expression in the middle
            exp = {"c%d" % i: -2.0 + i for i in range(n // 2)}
            exp.update({"c%d" % i: 100.0 + (i - n // 2) for i in range(n // 2, n + 1)})
            check("chain-%d-cut" % n, d, exp)
        guarded("chain-%d" % n, chain)

        def rchain(n=min(n, 2500)):
            # consumer-before-producer: define c_n first, c_1 last (quadratic number of runs)
            m = xdeps.Manager()
            d = {"c%d" % i: 0.0 for i in range(n + 1)}
            r = m.ref(d, "r")
            for i in range(n, 0, -1):
                r["c%d" % i] = r["c%d" % (i - 1)] + 1
            r["c0"] = 3.0
            check("rchain-%d" % n, d, {"c%d" % i: 3.0 + i for i in range(n + 1)})
            r["c0"] += 2
            check("rchain-%d-iadd" % n, d, {"c%d" % i: 5.0 + i for i in range(n + 1)})
        guarded("rchain-%d" % n, rchain)

        def nested_chain(n=n):
            # chain across list items of many small nested containers (layered: box i reads box i-1)
            m = xdeps.Manager()
            k = n // 3
            d = {"b%d" % i: [0.0, 0.0, 0.0] for i in range(k + 1)}
            r = m.ref(d, "r")
            for i in range(1, k + 1):
                for j in range(3):
                    r["b%d" % i][j] = r["b%d" % (i - 1)][(j + 1) % 3] + 1
            r["b0"][0] = 1.0
            r["b0"][1] = 2.0
            r["b0"][2] = 4.0
            exp = {}
            prev = [1.0, 2.0, 4.0]
            for i in range(1, k + 1):
                prev = [prev[(j + 1) % 3] + 1 for j in range(3)]
                exp["b%d" % i] = prev
            bad = [i for i in range(1, k + 1) if d["b%d" % i] != exp["b%d" % i]]
            counters["stress_locations_compared"] = counters.get("stress_locations_compared", 0) + 3 * k
            if bad:
                violations.append({"what": "C01 stress nested-chain-%d: %d stale boxes, first b%d" % (n, len(bad), bad[0])})
        guarded("nested-chain-%d" % n, nested_chain)

        def fan(n=n):
            m = xdeps.Manager()
            d = {"s": 2.0}
            r = m.ref(d, "r")
            for i in range(n):
                r["f%d" % i] = r["s"] * i
            r["total"] = r["f1"] + r["f%d" % (n - 1)]
            r["s"] = 3.0
            exp = {"f%d" % i: 3.0 * i for i in range(n)}
            exp["total"] = 3.0 + 3.0 * (n - 1)
            check("fan-%d" % n, d, exp)
        guarded("fan-%d" % n, fan)
    if kind in ("lattice", "big", "small"):
        side = {"lattice": 60, "big": 40, "small": 14}[kind]

        def lattice(side=side):
            m = xdeps.Manager()
            d = {}
            r = m.ref(d, "r")
            order = [(i, j) for i in range(side) for j in range(side)]
            for i, j in order:
                d["g%d_%d" % (i, j)] = 0.0
            random.Random("lattice").shuffle(order)   # arbitrary definition order
            for i, j in order:
                if i == 0 and j == 0:
                    continue
                if i == 0:
                    r["g0_%d" % j] = r["g0_%d" % (j - 1)] + 1
                elif j == 0:
                    r["g%d_0" % i] = r["g%d_0" % (i - 1)] + 1
                else:
                    r["g%d_%d" % (i, j)] = (r["g%d_%d" % (i - 1, j)] + r["g%d_%d" % (i, j - 1)]) * 0.5
            for v in (1.0, 7.0):
                r["g0_0"] = v
                g = [[0.0] * side for _ in range(side)]
                for i in range(side):
                    for j in range(side):
                        if i == 0 and j == 0:
                            g[i][j] = v
                        elif i == 0:
                            g[i][j] = g[i][j - 1] + 1
                        elif j == 0:
                            g[i][j] = g[i - 1][j] + 1
                        else:
                            g[i][j] = (g[i - 1][j] + g[i][j - 1]) * 0.5
                check("lattice-%d" % side, d, {"g%d_%d" % (i, j): g[i][j] for i in range(side) for j in range(side)})
        guarded("lattice-%d" % side, lattice)
    if len(samples) < 3:
        samples.append({"stress": kind, "sizes": sizes, "wall_s": round(time.time() - t0, 2)})


def shared_mutable_cases(rng, counters, violations):
    """In-place updates through a reference on a location that holds a MUTABLE value (list, numpy array, dict, set,
    bytearray) which another location (of the same or of ANOTHER manager) holds too -- the same object, e.g. a shared
    default.  `ref[p] op= k` assigns p the value `old op k`; every other location still holds the last value assigned
    to it, and the expressions defined on those locations still hold their value on the current contents."""
    import copy
    import operator
    import numpy as np
    import xdeps
    kinds = {
        "list": (lambda: [1.0, 2.0], [("add", [3.0]), ("mul", 2)]),
        "float-array": (lambda: np.array([1.0, 2.0, 4.0]), [("add", 0.5), ("mul", 3), ("truediv", 2), ("sub", np.array([1.0, 1.0, 1.0])), ("pow", 2)]),
        "int-array": (lambda: np.array([1, 2, 3]), [("add", 0.5), ("truediv", 2), ("mul", 3), ("floordiv", 2), ("lshift", 1), ("and_", 1), ("or_", 4), ("xor", 1), ("mod", 2)]),
        "0-d-array": (lambda: np.array(7), [("truediv", 2), ("add", 1), ("mul", 0.5)]),
        "2-d-array": (lambda: np.eye(2), [("matmul", np.array([[0.0, 1.0], [1.0, 0.0]])), ("add", 1.0)]),
        "dict": (lambda: {"a": 1}, [("or_", {"b": 2})]),
        "set": (lambda: {1, 2}, [("or_", {3}), ("and_", {1}), ("sub", {2}), ("xor", {2, 5})]),
        "bytearray": (lambda: bytearray(b"ab"), [("add", b"c"), ("mul", 2)]),
    }
    AUG = {"add": "__iadd__", "mul": "__imul__", "truediv": "__itruediv__", "sub": "__isub__", "pow": "__ipow__", "floordiv": "__ifloordiv__",
           "lshift": "__ilshift__", "and_": "__iand__", "or_": "__ior__", "xor": "__ixor__", "mod": "__imod__", "matmul": "__imatmul__"}

    def same(a, b):
        if isinstance(a, np.ndarray) or isinstance(b, np.ndarray):
            return isinstance(a, np.ndarray) and isinstance(b, np.ndarray) and a.dtype == b.dtype and a.shape == b.shape and bool(np.all(a == b))
        return type(a) is type(b) and a == b

    for kind, (mk, ops) in kinds.items():
        for opname, k in ops:
            for two_managers in (False, True):
                obj = mk()
                snap = copy.deepcopy(obj)
                m1 = xdeps.Manager()
                d1 = {"p": None, "q": None, "e": None}
                r1 = m1.ref(d1, "r")
                if two_managers:
                    m2 = xdeps.Manager()
                    d2 = {"q": None, "e": None}
                    r2 = m2.ref(d2, "s")
                else:
                    d2, r2 = d1, r1
                r1["p"] = obj
                r2["q"] = obj                       # the same object, assigned through a reference
                seq = kind in ("list", "bytearray")
                try:
                    r2["e"] = (r2["q"] * 2) if kind not in ("dict", "set") else (r2["q"] | r2["q"])
                    want_e = (copy.deepcopy(snap) * 2) if kind not in ("dict", "set") else (snap | snap)
                    want_p = getattr(operator, opname)(copy.deepcopy(snap), copy.deepcopy(k))      # `old op k`, computed on copies
                except Exception:
                    counters["shared_mutable_cases_skipped"] = counters.get("shared_mutable_cases_skipped", 0) + 1
                    continue
                case = "%s %s= %r, %s" % (kind, opname, k, "two managers" if two_managers else "one manager")
                counters["shared_mutable_cases"] = counters.get("shared_mutable_cases", 0) + 1
                try:
                    # what `r1['p'] op= k` does: the reference's in-place method returns the new right-hand side, which is assigned
                    r1["p"] = getattr(r1["p"], AUG[opname])(k)
                except Exception as exc:
                    violations.append({"what": "C01 shared mutable value, %s: the in-place update raised %s: %s (Python computes old %s k = %r)" % (
                        case, type(exc).__name__, str(exc)[:120], opname, want_p)})
                    continue
                bad = []
                if not same(d1["p"], want_p):
                    bad.append("p holds %r, expected old %s k = %r" % (d1["p"], opname, want_p))
                if not same(d2["q"], snap):
                    bad.append("q (never assigned since) holds %r, the last value assigned to it is %r" % (d2["q"], snap))
                if not same(d2["e"], want_e):
                    bad.append("e = f(q) holds %r, its definition on the last value assigned to q gives %r" % (d2["e"], want_e))
                cur_e = (d2["q"] * 2) if kind not in ("dict", "set") else (d2["q"] | d2["q"])
                if not same(d2["e"], cur_e):
                    bad.append("e = f(q) holds %r, its definition evaluated on the CURRENT contents gives %r" % (d2["e"], cur_e))
                if bad:
                    violations.append({"what": "C01 shared mutable value, %s: %s" % (case, "; ".join(bad[:3]))})


def run_shard(spec):
    rng = random.Random("C01:%s:%s" % (spec["seed"], spec["shard"]))
    mgrmon.install_reach_counters()
    mgrmon.install_run_events()
    mgrmon.install_toposort(random.Random(rng.random()), contract_every=1)
    counters, digests, samples, violations, known = {}, set(), [], [], []
    if spec.get("replay"):
        wit = spec["replay"]
        if "ops" in wit:
            f, i, ls, sh = lockstep.replay_history(wit["world"], wit["ops"])
            if f and not classify(f, wit["ops"][i], ls, sh):
                violations.append({"what": "replayed: %s" % (f,), "world": wit["world"], "ops": wit["ops"], "failure": f})
        elif "stress" in wit:
            stress("chains", rng, counters, violations, digests, samples)
        counters.update(lockstep.STATS)
        return {"evaluations": 1, "digests": [], "samples": [], "counters": counters, "violations": violations, "known": known}
    if spec["shard"] == 0:
        for name, ops in REGRESSIONS.items():
            f, i, ls, sh = lockstep.replay_history(witness_world(), ops)
            counters["regression_cases"] = counters.get("regression_cases", 0) + 1
            if f:
                violations.append({"what": "C01 regression %s: %s" % (name, f), "world": witness_world(), "ops": ops, "failure": f})
        shared_mutable_cases(rng, counters, violations)
        if kf.is_open("KF1", ID):
            run_witness("KF1", KF1_WITNESS, "KF1", known, counters, violations)
        if kf.is_open("KF5", ID):
            run_witness("KF5", KF5_WITNESS, "KF5", known, counters, violations)
        if kf.is_open("KF6", ID):
            run_witness("KF6", KF6_WITNESS, "KF6", known, counters, violations)
    n = spec.get("histories", 0)
    for h in range(n):
        mgrmon.set_shuffle_rng(random.Random(rng.random()) if rng.random() < 0.7 else None)
        layered = rng.random() < 0.7
        run_history(rng, counters, digests, samples, violations, known, spec, layered, rng.randrange(10, 45))
        if len(violations) >= 5:
            break
    if spec.get("stress"):
        mgrmon.set_shuffle_rng(None)
        mgrmon._installed["toposort_state"]["every"] = 0   # contract is O(V+E) Python; chains have their own oracle
        stress(spec["stress"], rng, counters, violations, digests, samples)
    counters.update(lockstep.STATS)
    counters.update({"monitor_" + k: v for k, v in mgrmon.COUNTS.items()})
    counters["container_writes_observed"] = C.STATS["writes"]
    counters["function_calls_observed"] = C.STATS["calls"]
    counters["anchors_reached"] = dict(mgrmon.REACH)
    return {"evaluations": counters.get("histories", 0) + counters.get("stress_scenarios", 0),
            "digests": sorted(digests), "samples": samples, "counters": counters,
            "violations": violations, "known": known}

TEXT = ("Held on every execution observed: after each of ~20 000 (quick) / ~1.5 million (thorough) assignments in "
        "generated histories the whole world is compared with an independent pull-model evaluation; chains, "
        "reverse-defined chains, fans and lattices up to 10 000 dependants are checked against closed forms. "
        "Exploration, not proof: the ∀ over histories/graphs is sampled up to the stated bounds."
        ' Whole-container reads (f.tot(container)) over dicts, lists, attribute containers and nested dicts are part of the term language; open findings KF1, KF5, KF6 are re-run from fixed witnesses on every run.'
        ' In-place updates on SHARED mutable values (lists, arrays, dicts, sets held by two locations of one or two managers) and worlds whose sibling keys are hash-colliding integers (-1/-2, 0/2**61-1) are part of every run.')
NOTE = ("Trusted: the shadow evaluator (Python operators applied to shadow values), the tracing containers, the "
        "generator's premise filter (ops Python itself rejects are dropped). KF1/KF5 mismatches are classified by "
        "mechanism and reported as KNOWN-FINDING.")
TECHNIQUE = "runtime monitoring: reference-model (pull) monitor compared after every assignment + closed-form stress oracles"
