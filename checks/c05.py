"""C05 — reported dependencies contain every location an expression reads.

Monitor: (i) structural oracle — the generator knows which locations it placed in each operand
slot and derives the expected dependency set itself; (ii) perturbation experiment — every location
of the world is changed through the manager: if the expression's value changes, the location must
be reported, and a registered dependant must have been recomputed.  Node classes are discovered by
introspection; a class without a construction recipe makes the run inconclusive.
"""
import builtins
import math
import random

from vlib import kf
from vlib.driver import digest
from vlib.values import canon

ID = "C05"
LEVEL = "exploration"
DECIDING = ("structural_cases", "perturbations", "classes_covered")
RULE = ("exhaustive over node class x operand slot x leaf form (item, nested item, list item, attribute, "
        "computed key on nested and on top-level container, bare top-level container, ObjectAttrRef child) x "
        "wrapper (direct, +1, -(x*2), call, abs, round with ref parameter; nested 1-3 levels); every case is "
        "checked structurally and by perturbing every world location through the manager. Non-trivial = the "
        "expression has >= 1 dependency; distinct = sha1 of (class.slot, leaf, wrapper).")
ASSUMPTIONS = [
    "expected dependencies are derived from what the harness itself put into the slots",
    "a perturbation is an assignment through Manager.set_value; values are chosen so that keys stay valid",
]
TIMEOUT = {"quick": 600, "thorough": 3600}


def plan(tier, seed):
    if tier == "quick":
        return [{"mode": "compiled", "hashseed": 0, "depth": 2}, {"mode": "pure", "hashseed": 1, "depth": 1}]
    return [{"mode": m, "hashseed": h, "depth": 3} for m in ("compiled", "pure") for h in (0, 3)]


class O:
    pass


class FN:
    def f(self, *a, **k):
        return sum(a) + sum(k.values())


def all_subclasses(c):
    out = []
    for s in c.__subclasses__():
        out.append(s)
        out += all_subclasses(s)
    return out


def run_shard(spec):
    import xdeps
    import xdeps.refs as R
    import xdeps.tasks as T
    rng = random.Random("C05:%s:%s" % (spec["seed"], spec["shard"]))
    counters, digests, samples, violations, known = {}, set(), [], [], []
    m = xdeps.Manager()
    o = O()
    o.p = 1.5
    d = {"a": 2.0, "b": 3.0, "c": 1, "k": "a", "n": {"x": 0.5, "y": 7.0}, "l": [1.25, 2.75], "o": o, "t": 0.0}
    r = m.ref(d, "r")
    g_data = {"ga": 4.5}
    g = m.refattr(g_data, "g")

    F = FN()
    f = m.ref(F, "f")

    # ---- leaves: (name, factory, expected dependency set) ----------------------------------
    I, A = R.ItemRef, R.AttrRef
    ra, rb, rc, rk = I(r, "a", m), I(r, "b", m), I(r, "c", m), I(r, "k", m)
    rn, rl, ro = I(r, "n", m), I(r, "l", m), I(r, "o", m)
    LEAVES = [
        ("item", lambda: r["a"], {ra}),
        ("nested-item", lambda: r["n"]["x"], {rn, I(rn, "x", m)}),
        ("list-item", lambda: r["l"][1], {rl, I(rl, 1, m)}),
        ("attr", lambda: r["o"].p, {ro, A(ro, "p", m)}),
        ("computed-key-toplevel", lambda: r[r["k"]], {rk, I(r, rk, m)}),
        ("computed-key-nested", lambda: r["l"][r["c"]], {rl, rc, I(rl, rc, m)}),
        ("computed-key-expr", lambda: r["l"][r["c"] - 1], {rl, rc, I(rl, rc - 1, m)}),
        ("bare-toplevel", lambda: r, set()),
        ("objectattr-child", lambda: g.ga, {I(g, "ga", m)}),
    ]
    ff = A(f, "f", m)
    WRAPS = [
        ("direct", lambda x: x, set()),
        ("plus1", lambda x: x + 1, set()),
        ("neg-mul", lambda x: -(x * 2), set()),
        ("call", lambda x: f.f(x), {ff}),
        ("abs", lambda x: abs(x), set()),
        ("round-ref-param", lambda x: round(x, r["c"]), {rc}),
        ("divmod-ref", lambda x: divmod(x, r["b"]), {rb}),
        ("kwarg", lambda x: f.f(1, y=x), {ff}),
    ]

    def nest(wraps):
        def w(x):
            for _, fn, _ in wraps:
                x = fn(x)
            return x
        extra = set()
        for _, _, e in wraps:
            extra |= e
        return "+".join(n for n, _, _ in wraps), w, extra
    wrappers = [nest([w]) for w in WRAPS]
    if spec["depth"] >= 2:
        wrappers += [nest([a, b]) for a in WRAPS for b in WRAPS if a is not b][::2 if spec["depth"] == 2 else 1]
    if spec["depth"] >= 3:
        wrappers += [nest([rng.choice(WRAPS) for _ in range(3)]) for _ in range(60)]

    # ---- node classes by introspection -------------------------------------------------------
    classes = all_subclasses(R.BaseRef)
    abstract = {R.MutableRef, R.BinOpExpr, R.UnaryOpExpr}
    bins = [c for c in classes if issubclass(c, R.BinOpExpr) and c not in abstract]
    uns = [c for c in classes if issubclass(c, R.UnaryOpExpr) and c not in abstract]
    recipes = {}     # class -> list of (slot name, builder(leaf_expr) -> expr, extra deps)
    for c in bins:
        recipes[c] = [("lhs", lambda x, c=c: c(x, 1), set()), ("rhs", lambda x, c=c: c(1, x), set()),
                      ("both", lambda x, c=c: c(x, r["b"]), {rb})]
    for c in uns:
        recipes[c] = [("arg", lambda x, c=c: c(x), set())]
    recipes[R.LiteralExpr] = [("none", lambda x: R.LiteralExpr(3), None)]
    recipes[R.BuiltinRef] = [
        ("arg", lambda x: R.BuiltinRef(x, builtins.abs), set()),
        ("arg-math", lambda x: R.BuiltinRef(x, math.floor), set()),
        ("params", lambda x: R.BuiltinRef(r["b"], builtins.round, (x,)), {rb}),
        ("arg+params", lambda x: R.BuiltinRef(x, builtins.divmod, (x,)), set()),
        ("two-params", lambda x: R.BuiltinRef(r["a"], builtins.pow, (2, x)), {ra}),
    ]
    recipes[R.CallRef] = [
        ("func", lambda x: R.CallRef(x, (1,), {}), set()),
        ("args", lambda x: R.CallRef(f.f, (1, x), {}), {ff}),
        ("kwargs", lambda x: R.CallRef(f.f, (), {"y": x}), {ff}),
        ("args+kwargs", lambda x: R.CallRef(f.f, (x, r["b"]), {"y": x, "z": r["a"]}), {ff, rb, ra}),
        ("kwargs-as-pairs", lambda x: R.CallRef(f.f, (), (("y", x),)), {ff}),
        ("args+kwargs-as-pairs", lambda x: R.CallRef(f.f, (r["b"],), (("y", x), ("z", r["a"]))), {ff, rb, ra}),
    ]
    recipes[R.ItemRef] = [("owner", lambda x: R.ItemRef(x, 0, m), "self"), ("key", lambda x: R.ItemRef(r["l"], x, m), "self+rl")]
    recipes[R.AttrRef] = [("owner", lambda x: R.AttrRef(x, "p", m), "self")]
    recipes[R.Ref] = [("toplevel", lambda x: r, None)]
    recipes[R.ObjectAttrRef] = [("toplevel", lambda x: g, None)]
    missing = [c.__name__ for c in classes if c not in recipes and c not in abstract]
    if missing:
        raise RuntimeError("no construction recipe for node class(es) %s: inconclusive" % missing)
    counters["classes_discovered"] = len(classes)
    counters["classes_covered"] = len([c for c in classes if c in recipes])

    # ---- perturbation universe -------------------------------------------------------------
    UNIVERSE = [("a", ra, [5.0, -1.0]), ("b", rb, [6.5, 2.0]), ("c", rc, [0, 1]), ("k", rk, ["b", "a"]),
                ("n.x", I(rn, "x", m), [9.0, -3.5]), ("n.y", I(rn, "y", m), [8.0]), ("l0", I(rl, 0, m), [4.0, -2.25]),
                ("l1", I(rl, 1, m), [6.0, 0.125]), ("o.p", A(ro, "p", m), [2.5, -7.0]), ("g.ga", I(g, "ga", m), [1.0, 3.0])]

    def owners(ref):
        out, ow = [], ref._owner
        while isinstance(ow, R.MutableRef) and not isinstance(ow, R.Ref):
            out.append(ow)
            ow = ow._owner
        return out

    def val(e):
        try:
            return ("ok", canon(e._get_value()))
        except Exception as exc:
            return ("exc", type(exc).__name__)

    def check(desc, e, expected):
        counters["structural_cases"] = counters.get("structural_cases", 0) + 1
        try:
            got = e._get_dependencies()
        except Exception as exc:
            violations.append({"what": "C05 %s: _get_dependencies() raised %s on %s" % (desc, type(exc).__name__, e), "case": desc})
            return
        if not isinstance(got, set):
            violations.append({"what": "C05 %s: dependencies of %s are %r, not a set" % (desc, e, type(got).__name__), "case": desc})
            return
        if expected is not None and got != expected:
            violations.append({"what": "C05 %s: dependencies of %s: missing %s, unexpected %s" % (
                desc, e, sorted(map(str, expected - got)), sorted(map(str, got - expected))), "case": desc})
            return
        if got:
            digests.add(digest(desc))
            # the returned set belongs to the caller (ExprTask keeps it, callers extend it): emptying it must not
            # change what the next walk reports
            keep = set(got)
            got.clear()
            again = e._get_dependencies()
            counters["result_sets_mutated_by_the_caller"] = counters.get("result_sets_mutated_by_the_caller", 0) + 1
            if again != keep:
                violations.append({"what": "C05 %s: after the caller emptied the returned set, the next walk of %s reports %s instead of %s" % (
                    desc, e, sorted(map(str, again)) if isinstance(again, set) else again, sorted(map(str, keep))), "case": desc})
                return
            got = again
        # a copy of the expression (deepcopy / pickle round trip: nodes are rebuilt through __reduce__, e.g. a
        # call from its (name, value) pairs) reports the same locations
        if expected is not None and (desc[2].startswith("direct") or desc[0].startswith("CallRef") or desc[0].startswith("BuiltinRef")):
            import copy
            import pickle
            for how, cp in (("deepcopy", copy.deepcopy), ("pickle", lambda z: pickle.loads(pickle.dumps(z)))):
                try:
                    e2 = cp(e)
                except Exception:
                    counters["copies_not_possible_" + how] = counters.get("copies_not_possible_" + how, 0) + 1
                    continue
                counters["copied_expressions_checked"] = counters.get("copied_expressions_checked", 0) + 1
                try:
                    got2 = e2._get_dependencies()
                except Exception as exc:
                    violations.append({"what": "C05 %s: _get_dependencies() of a %s copy raised %s" % (desc, how, type(exc).__name__), "case": desc})
                    return
                if not isinstance(got2, set) or sorted(map(str, got2)) != sorted(map(str, expected)):
                    violations.append({"what": "C05 %s: a %s copy of %s reports %s, expected %s" % (
                        desc, how, e, sorted(map(str, got2)) if isinstance(got2, set) else type(got2).__name__, sorted(map(str, expected))), "case": desc})
                    return
        # perturbation experiment
        v0 = val(e)
        if v0[0] == "ok" and isinstance(e._get_value(), (dict, list, O)):
            # the expression denotes a whole container object (identity), not a value read from locations
            counters["perturbation_skipped_container_valued"] = counters.get("perturbation_skipped_container_valued", 0) + 1
            return
        if v0[0] != "ok":
            counters["perturbation_skipped_unevaluable"] = counters.get("perturbation_skipped_unevaluable", 0) + 1
            return
        registered = False
        if isinstance(e, R.BaseRef) and not isinstance(e, R.Ref):
            try:
                m.set_value(r["t"], e)
                registered = True
            except Exception:
                registered = False
        for name, ref, vals in UNIVERSE:
            old = ref._get_value()
            for nv in vals:
                if nv == old:
                    continue
                try:
                    m.set_value(ref, nv)
                except Exception:
                    # the perturbed value makes Python itself reject the registered expression
                    counters["perturbations_rejected_by_python"] = counters.get("perturbations_rejected_by_python", 0) + 1
                    continue
                counters["perturbations"] = counters.get("perturbations", 0) + 1
                v1 = val(e)
                # the manager triggers on the assigned location and on its owners: a location read
                # through a computed key is covered by its (reported) owner
                covered = ref in got or any(ow in got for ow in owners(ref))
                if v1 != v0 and not covered and desc[1] == "computed-key-toplevel" and isinstance(ref._owner, R.Ref) \
                        and kf.is_open("KF5", ID):
                    known.append(kf.known("KF5"))
                    m.set_value(ref, old)
                    if registered:
                        m.unregister(r["t"])
                        d["t"] = 0.0
                    return
                if v1 != v0 and not covered:
                    violations.append({"what": "C05 %s: value of %s changed (%s -> %s) when %s was assigned, but %s is not a reported dependency %s" % (
                        desc, e, v0, v1, ref, ref, sorted(map(str, got))), "case": desc})
                    m.set_value(ref, old)
                    if registered:
                        m.unregister(r["t"])
                    return
                if registered and v1[0] == "ok" and canon(d["t"]) != v1[1]:
                    violations.append({"what": "C05 %s: dependant t = %s was not recomputed when %s was assigned (holds %s, expression is %s)" % (
                        desc, e, ref, canon(d["t"]), v1[1]), "case": desc})
                    m.set_value(ref, old)
                    m.unregister(r["t"])
                    return
                break
            m.set_value(ref, old)
        if registered:
            m.unregister(r["t"])
            d["t"] = 0.0

    for cls, recs in recipes.items():
        for slot, build, extra in recs:
            for lname, lf, ldeps in LEAVES:
                for wname, wf, wextra in wrappers:
                    if extra is None and (lname, wname) != ("item", "direct"):
                        continue
                    desc = [cls.__name__ + "." + slot, lname, wname]
                    try:
                        x = wf(lf())
                    except Exception:
                        counters["python_rejects_at_build"] = counters.get("python_rejects_at_build", 0) + 1
                        continue
                    if not isinstance(x, R.BaseRef):
                        continue
                    try:
                        e = build(x)
                    except Exception:
                        counters["python_rejects_at_build"] = counters.get("python_rejects_at_build", 0) + 1
                        continue
                    inner = set(ldeps) | set(wextra)
                    if extra is None:
                        expected = set()
                    elif extra == "self":
                        expected = inner | {e}
                    elif extra == "self+rl":
                        expected = inner | {e, rl}
                    else:
                        expected = inner | set(extra)
                    if slot == "arg+params" or slot == "args+kwargs":
                        pass
                    check(desc, e, expected)
                    if len(samples) < 3 and len(expected) >= 3 and counters["structural_cases"] % 211 == 0:
                        samples.append({"case": desc, "expr": str(e), "expected": sorted(map(str, expected))})
                    if len(violations) >= 12:
                        break
    # ---- expressions that read NO location (a LiteralExpr in the slot, directly or under unary / binary / builtin / call
    # nodes, also as the root of the walk): the result is the empty set, never None
    lit_wraps = [("direct", lambda x: x), ("neg", lambda x: -x), ("pos-neg", lambda x: +(-x)), ("invert", lambda x: ~x),
                 ("plus1", lambda x: x + 1), ("abs", lambda x: abs(x)), ("round2", lambda x: round(x, 2)), ("neg-abs", lambda x: -abs(x))]
    for cls, recs in recipes.items():
        for slot, build, extra in recs:
            if extra is None or isinstance(extra, str):
                continue
            for wname, wf in lit_wraps:
                desc = [cls.__name__ + "." + slot, "literal-only", wname]
                try:
                    e = build(wf(R.LiteralExpr(3)))
                except Exception:
                    counters["python_rejects_at_build"] = counters.get("python_rejects_at_build", 0) + 1
                    continue
                counters["literal_only_cases"] = counters.get("literal_only_cases", 0) + 1
                check(desc, e, set(extra))
    for wname, wf in lit_wraps:
        e = wf(R.LiteralExpr(3))
        counters["literal_only_cases"] = counters.get("literal_only_cases", 0) + 1
        check(["root", "literal-only", wname], e, set())
        # ... and such an expression can be bound to a location
        try:
            m.set_value(r["t"], e)
            m.unregister(r["t"])
            d["t"] = 0.0
        except Exception as exc:
            violations.append({"what": "C05 binding the dependency-free expression %s raised %s: %s" % (e, type(exc).__name__, str(exc)[:100]),
                               "case": ["root", "literal-only", wname]})
    # ---- two DIFFERENT locations in two slots of one node (incl. refs whose hashes collide) ----
    M61 = 2 ** 61 - 1
    d["h"] = {0: 1.0, M61: 2.0, -1: 3.0, -2: 4.0}
    rh = I(r, "h", m)
    PAIRS = [
        ("neg-index-hash-collision", lambda: (r["l"][-1], r["l"][-2]), {rl, I(rl, -1, m), I(rl, -2, m)}),
        ("int-key-hash-collision", lambda: (r["h"][0], r["h"][M61]), {rh, I(rh, 0, m), I(rh, M61, m)}),
        ("dict-neg-key-hash-collision", lambda: (r["h"][-1], r["h"][-2]), {rh, I(rh, -1, m), I(rh, -2, m)}),
        ("equal-valued", lambda: (r["a"], r["n"]["y"]), {ra, rn, I(rn, "y", m)}),
        ("same-key-other-owner", lambda: (r["n"]["x"], r["h"][0]), {rn, I(rn, "x", m), rh, I(rh, 0, m)}),
        ("item-vs-attr", lambda: (r["o"].p, r["a"]), {ro, A(ro, "p", m), ra}),
    ]
    counters["pair_leaves_with_equal_hash"] = sum(1 for _, mk, _ in PAIRS if hash(mk()[0]) == hash(mk()[1]))
    pair_recipes = [(c.__name__ + ".lhs+rhs", lambda x, y, c=c: c(x, y), set()) for c in bins]
    pair_recipes += [
        ("BuiltinRef.arg+param", lambda x, y: R.BuiltinRef(x, builtins.divmod, (y,)), set()),
        ("BuiltinRef.two-params", lambda x, y: R.BuiltinRef(r["b"], builtins.pow, (x, y)), {rb}),
        ("CallRef.two-args", lambda x, y: R.CallRef(f.f, (x, y), {}), {ff}),
        ("CallRef.arg+kwarg", lambda x, y: R.CallRef(f.f, (x,), {"y": y}), {ff}),
        ("CallRef.two-kwargs", lambda x, y: R.CallRef(f.f, (), {"y": x, "z": y}), {ff}),
        ("ItemRef.owner+key", lambda x, y: R.ItemRef(R.ItemRef(r["l"], x, m), y, m), "self2"),
    ]
    pair_wrappers = [w for w in wrappers if w[0] in ("direct", "plus1", "neg-mul", "abs", "call")]
    for rname, build2, extra in pair_recipes:
        for pname, mk, pdeps in PAIRS:
            for wname, wf, wextra in pair_wrappers:
                for swap in (False, True):
                    x, y = mk()
                    if swap:
                        x, y = y, x
                    desc = [rname, pname, wname + ("/swapped" if swap else "")]
                    try:
                        e = build2(wf(x), wf(y))
                    except Exception:
                        counters["python_rejects_at_build"] = counters.get("python_rejects_at_build", 0) + 1
                        continue
                    expected = set(pdeps) | set(wextra)
                    if extra == "self2":
                        expected |= {e, e._owner, rl}
                    else:
                        expected |= set(extra)
                    counters["pair_cases"] = counters.get("pair_cases", 0) + 1
                    check(desc, e, expected)
            if len(violations) >= 12:
                break
    # ---- a dependency walk that FAILS (RecursionError on a very deep sum in the plain-Python build) must not
    # influence later walks over the same sub-expression objects
    import sys
    leaves_cycle = [r["a"], r["b"], r["n"]["x"], r["o"].p, r["l"][0], g.ga]
    spine = []
    e = r["c"] + 0
    for i in range(sys.getrecursionlimit() + 600):
        e = e + leaves_cycle[i % len(leaves_cycle)]
        spine.append(e)
    try:
        e._get_dependencies()
    except RecursionError:
        counters["failed_walks_provoked"] = counters.get("failed_walks_provoked", 0) + 1
    except Exception as exc:
        violations.append({"what": "C05 dependency walk of a %d-term sum raised %s: %s" % (len(spine), type(exc).__name__, str(exc)[:100]),
                           "case": ["deep-sum"]})
    full = {rc, ra, rb, rn, I(rn, "x", m), ro, A(ro, "p", m), rl, I(rl, 0, m), I(g, "ga", m)}
    for back in (5, 100, 500, 900, len(spine) - 300, len(spine) - 40):
        sub = spine[len(spine) - 1 - back] if back < len(spine) else spine[0]
        if len(spine) - back > sys.getrecursionlimit() - 200:
            continue        # still too deep for Python itself
        for wname, mk in (("mul", lambda x: x * 2), ("neg", lambda x: -x), ("call", lambda x: f.f(x, 1)), ("rhs", lambda x: 1 - x),
                          ("abs", lambda x: abs(x)), ("item-key", lambda x: r["l"][x])):
            counters["walks_after_failed_walk"] = counters.get("walks_after_failed_walk", 0) + 1
            counters["structural_cases"] = counters.get("structural_cases", 0) + 1
            x = mk(sub)
            extra = {ff} if wname == "call" else ({x, rl} if wname == "item-key" else set())
            try:
                got = x._get_dependencies()
            except RecursionError:
                counters["walks_after_failed_walk_too_deep"] = counters.get("walks_after_failed_walk_too_deep", 0) + 1
                continue
            if got != full | extra:
                violations.append({"what": "C05 after a failed walk: dependencies of %s(<sum of %d terms>): missing %s, unexpected %s" % (
                    wname, len(spine) - back, sorted(map(str, (full | extra) - got))[:6], sorted(map(str, got - (full | extra)))[:6]),
                    "case": ["after-failed-walk", wname, back]})
                break
            digests.add(digest(["after-failed-walk", wname, back]))
    # expressions over a bare top-level container
    for name, mk in [("neg-container", lambda: -r), ("container+1", lambda: r + 1), ("abs-container", lambda: abs(r)),
                     ("container-call", lambda: r(1)), ("round-container", lambda: round(r))]:
        e = mk()
        counters["structural_cases"] = counters.get("structural_cases", 0) + 1
        got = e._get_dependencies()
        if not isinstance(got, set) or got:
            violations.append({"what": "C05 %s: dependencies of %s are %r (expected the empty set)" % (name, e, got), "case": [name]})
    counters["exhaustive"] = True
    return {"evaluations": counters.get("structural_cases", 0), "digests": sorted(digests), "samples": samples,
            "counters": counters, "violations": violations[:12], "known": known}


TEXT = ("Exhaustive over the finite scope node class (introspected) x operand slot x leaf form x wrapper nesting "
        "(~9 000 cases quick, ~35 000 thorough): each case is compared with the generator-derived dependency set "
        "and subjected to a perturbation experiment over every world location (value change => reported; "
        "registered dependant recomputed). Arbitrary expressions beyond this scope are not enumerated."
        ' Plus pair cases (two different leaves, among them hash-colliding ones, in two slots of every multi-operand node) and walks over shared sub-expressions after a walk that failed with RecursionError.')
NOTE = ("Trusted: the harness's own bookkeeping of what it placed in each slot; perturbations go through "
        "Manager.set_value. A node class without a recipe makes the check inconclusive rather than silent.")
TECHNIQUE = "runtime monitoring: structural dependency oracle per node class x slot (introspected) + perturbation experiment through the manager observing value changes and dependant recomputation"
