"""C17 — a frozen manager's expression graph cannot change, yet values still propagate.

Monitors: a snapshot taken at freeze time (definitions, index supports, query answers) is
re-checked after EVERY call made while frozen; the data must equal the shadow (which only moves
by accepted plain-value assignments); a twin manager that was never frozen replays the accepted
operations only and is compared after every operation, before and after unfreezing.
"""
import random

from vlib import containers as C
from vlib import gen, kf, lockstep, mgrmon
from vlib import programs as P
from vlib.driver import digest
from vlib.values import canon, enc

ID = "C17"
LEVEL = "exploration"
DECIDING = ("frozen_calls_checked", "rejected_graph_changes", "frozen_value_propagations", "twin_comparisons")
RULE = ("C01-style layered histories frozen at a random point, then 5-25 API calls (assign value to defined and "
        "undefined locations, assign expression, in-place ops, register function task / knob, unregister, load, "
        "copy_expr_from, refresh, verify, cleanup, clone, container replacement), then unfreeze and continue. "
        "Non-trivial: >= 1 rejected graph change and >= 1 value propagation that ran a task while frozen; "
        "distinct = sha1 of (world, ops).")
ASSUMPTIONS = [
    "a call is classified as graph-changing from the generator's own record of which locations are defined",
    "refresh() while frozen may either return or raise ValueError; in both cases nothing observable may change",
]
TIMEOUT = {"quick": 900, "thorough": 5400}


def plan(tier, seed):
    if tier == "quick":
        return [{"mode": "compiled", "hashseed": 0, "histories": 300},
                {"mode": "compiled", "hashseed": 1, "histories": 300},
                {"mode": "pure", "hashseed": 2, "histories": 300},
                {"mode": "pure", "hashseed": 3, "histories": 300}]
    return [{"mode": "compiled" if i % 2 == 0 else "pure", "hashseed": i % 8, "histories": 2500} for i in range(32)]


def graph_changing(op, sh):
    k = op[0]
    if k == "set":
        ck = sh.ckey(op[1])
        return ck in sh.defs or (op[2][0] == "t" and P.is_deferred(op[2][1]))
    if k == "iop":
        ck = sh.ckey(op[1])
        return ck in sh.defs or (op[3][0] == "t" and P.is_deferred(op[3][1]))
    if k == "load":     # with overwrite=False an existing definition is kept: nothing would change
        return any(op[2] or sh.ckey(p) not in sh.defs for p, t in op[1])
    return k in ("unreg", "unreg_task", "ftask", "knob", "copy_expr_from")


def observe(runner, locs):
    """Definitions, index supports and query answers of a manager (text form)."""
    m = runner.mgr
    out = {"dump": sorted(map(tuple, m.dump())), "tasks": sorted(map(str, m.tasks)),
           "supports": {n: {str(k): sorted(map(str, v)) for k, v in d.items()}
                        for n, d in mgrmon.index_supports(m).items()}, "queries": {}}
    for l in locs:
        r = runner.mkref(l["path"])
        out["queries"][str(r)] = (sorted(map(str, r._find_dependant_targets())), sorted(map(str, r._tasks)), str(r._expr))
    # the label -> container registry, and a query that walks it: the setter generated for the first leaf location
    out["containers"] = sorted((str(k), type(v).__name__, id(v)) for k, v in m.containers.items())
    leaf = next((l for l in locs if l["group"] == "leaf"), None)
    if leaf is not None:
        try:
            m.gen_fun("probe", x=runner.mkref(leaf["path"]))
            # (any valid order of independent tasks is fine: the SET of statements is the answer compared)
            out["queries"]["gen_fun(probe)"] = ("ok", sorted(m.mk_fun("probe", x=runner.mkref(leaf["path"])).split("\n")))
        except Exception as exc:
            out["queries"]["gen_fun(probe)"] = ("raised", type(exc).__name__)
    return out


def diff_obs(a, b):
    for k in ("dump", "tasks"):
        if a[k] != b[k]:
            return "%s changed: %s" % (k, [x for x in a[k] + b[k] if (x in a[k]) != (x in b[k])][:3])
    for n in a["supports"]:
        if a["supports"][n] != b["supports"][n]:
            keys = [k for k in set(a["supports"][n]) | set(b["supports"][n]) if a["supports"][n].get(k) != b["supports"][n].get(k)]
            return "index %s changed at %s: %s -> %s" % (n, keys[:2], [a["supports"][n].get(k) for k in keys[:2]],
                                                         [b["supports"][n].get(k) for k in keys[:2]])
    if a["containers"] != b["containers"]:
        return "the label -> container registry changed: %s -> %s" % ([x[:2] for x in a["containers"]], [x[:2] for x in b["containers"]])
    for q in a["queries"]:
        if a["queries"][q] != b["queries"].get(q):
            return "query answers for %s changed: %s -> %s" % (q, a["queries"][q], b["queries"].get(q))
    return None


def run_history(rng, counters, digests, samples, violations, known, world_ops=None):
    import xdeps
    hg = gen.HistoryGen(rng, layered=True, depth=rng.choice([2, 3]), profile="plain",
                        weights={"load": 0.0, "ftask": 0.04, "knob": 0.03})
    if world_ops:
        hg = gen.HistoryGen(rng, layered=True, profile="plain", world=(world_ops[0], []))
    ls = lockstep.LockStep(hg.world)
    twin = P.Runner(hg.world)          # never frozen, sees accepted operations only
    log = []                            # full op log incl. markers, for the witness

    def report(what, **kw):
        violations.append(dict({"what": "C17 " + what, "world": hg.world, "ops": list(log)}, **kw))

    def both(op, exp):
        """Accepted op on real (compared with shadow) and on the twin; compare the two managers."""
        f = ls.step(op, exp)
        if f:
            if f["kind"] == "mismatch" and kf.is_open("KF1", ID) and \
                    kf.kf1(ls.runner.mgr, f["run_order"], hg.shadow, ls.runner)[0]:
                known.append(kf.known("KF1"))
                return "kf"
            report("%s on accepted %s: %s" % (f["kind"], op[0], f), failure=f)
            return "bad"
        try:
            twin.exec_op(op)
        except Exception as exc:
            report("never-frozen twin raised %s on %s" % (type(exc).__name__, op[0]))
            return "bad"
        counters["twin_comparisons"] = counters.get("twin_comparisons", 0) + 1
        ca = {k: canon(v) for k, v in ls.runner.contents().items()}
        cb = {k: canon(v) for k, v in twin.contents().items()}
        if ca != cb:
            report("contents differ from the never-frozen twin after %s: %s" % (
                op[0], [(k, ca.get(k), cb.get(k)) for k in ca if ca.get(k) != cb.get(k)][:3]))
            return "bad"
        if sorted(map(tuple, ls.runner.mgr.dump())) != sorted(map(tuple, twin.mgr.dump())):
            report("definitions differ from the never-frozen twin after %s" % op[0])
            return "bad"
        sa, sb = mgrmon.index_supports(ls.runner.mgr), mgrmon.index_supports(twin.mgr)
        sa = {n: {str(k): sorted(map(str, v)) for k, v in d.items()} for n, d in sa.items()}
        sb = {n: {str(k): sorted(map(str, v)) for k, v in d.items()} for n, d in sb.items()}
        if sa != sb:
            report("index supports differ from the never-frozen twin after %s" % op[0])
            return "bad"
        return None

    def gen_op(weights=None):
        if weights:
            old = dict(hg.w)
            hg.w.update(weights)
        trial_shadow = hg.shadow
        op, exp = hg.next_op()
        if weights:
            hg.w.clear()
            hg.w.update(old)
        return op, exp, trial_shadow

    replay_ops = list(world_ops[1]) if world_ops else None
    phase = "pre"
    n_pre, n_frozen, n_post = rng.randrange(4, 20), rng.randrange(5, 26), rng.randrange(3, 12)
    rejected = propagated = 0
    snap = None
    other = None
    i = 0
    while True:
        i += 1
        if replay_ops is not None:
            if not replay_ops:
                break
            op = replay_ops.pop(0)
            if op[0] == "freeze":
                phase = "frozen"
            elif op[0] == "unfreeze":
                phase = "post"
            if op[0] not in ("freeze", "unfreeze", "refreeze", "reunfreeze", "clone", "copy_expr_from", "reregister") and not (phase == "frozen" and graph_changing(op, hg.shadow)):
                hg.shadow.apply(op)
                exp = hg.shadow.all_expected()
            else:
                exp = None
            pre_shadow = hg.shadow
        else:
            if phase == "pre" and i > n_pre:
                op, exp, pre_shadow = ["freeze"], None, hg.shadow
                phase = "frozen"
            elif phase == "frozen" and i > n_pre + n_frozen:
                op, exp, pre_shadow = ["unfreeze"], None, hg.shadow
                phase = "post"
            elif phase == "post" and i > n_pre + n_frozen + n_post:
                break
            elif phase != "frozen" and rng.random() < 0.04:
                # unfreezing a tree that is not frozen changes nothing
                op, exp, pre_shadow = ["reunfreeze"], None, hg.shadow
            elif phase == "frozen" and rng.random() < 0.06:
                # freezing a frozen tree changes nothing: ONE unfreeze_tree() later releases it
                op, exp, pre_shadow = ["refreeze"], None, hg.shadow
            elif phase == "frozen":
                x = rng.random()
                if x < 0.08:
                    op, exp, pre_shadow = [rng.choice(["refresh", "verify", "cleanup", "clone"])], None, hg.shadow
                elif x < 0.12:
                    op, exp, pre_shadow = ["copy_expr_from"], None, hg.shadow
                elif x < 0.17:
                    # a task object that is already in place (the manager's own, or the equal one of a clone) is handed to register()
                    op, exp, pre_shadow = ["reregister", rng.randrange(1000), rng.choice(["own", "clone"])], None, hg.shadow
                else:
                    op, exp, pre_shadow = gen_op({"load": 0.06, "leafval": 0.35, "val": 0.12})
                    if op is None:
                        continue
            else:
                op, exp, pre_shadow = gen_op()
                if op is None:
                    continue
        log.append(op)
        counters["ops_" + phase + "_" + op[0]] = counters.get("ops_" + phase + "_" + op[0], 0) + 1
        # ---- markers ---------------------------------------------------------------
        if op[0] == "freeze":
            ls.runner.mgr.freeze_tree()
            snap = observe(ls.runner, hg.locs)
            continue
        if op[0] in ("unfreeze", "reunfreeze"):
            ls.runner.mgr.unfreeze_tree()
            continue
        if op[0] == "refreeze":
            ls.runner.mgr.freeze_tree()
            why = diff_obs(snap, observe(ls.runner, hg.locs))
            if why:
                report("a second freeze_tree() changed the frozen manager: %s" % why)
                return
            continue
        if phase != "frozen":
            r = both(op, exp)
            if r:
                return
            continue
        # ---- frozen phase ----------------------------------------------------------------
        counters["frozen_calls_checked"] = counters.get("frozen_calls_checked", 0) + 1
        m = ls.runner.mgr
        if op[0] == "reregister":
            # Re-registering a task that is already registered: either refused (ValueError) or, if an implementation
            # accepts it as "nothing to do", it must then really change NOTHING -- index multiplicities included.
            src = m if op[2] == "own" else m.clone()
            tids = sorted(src.tasks, key=str)
            if not tids:
                continue
            task = src.tasks[tids[op[1] % len(tids)]]
            mult = lambda: {n: {str(k): sorted((str(a), c) for a, c in v.items()) for k, v in getattr(m, n).items() if len(v)}
                            for n in ("rdeps", "rtasks", "deptasks", "tartasks")}
            b_m, b_c = mult(), {k: canon(v) for k, v in ls.runner.contents().items()}
            del C.EVENTS[:]
            try:
                m.register(task)
                counters["reregister_accepted"] = counters.get("reregister_accepted", 0) + 1
            except ValueError:
                counters["rejected_graph_changes"] = counters.get("rejected_graph_changes", 0) + 1
                rejected += 1
            except Exception as e:
                report("frozen register(<task already in place>) raised %s instead of ValueError: %s" % (type(e).__name__, str(e)[:200]))
                return
            if mult() != b_m:
                report("while frozen, register() of a task that is already in place (%s, %s) changed the index multiplicities" % (task.taskid, op[2]))
                return
            if {k: canon(v) for k, v in ls.runner.contents().items()} != b_c or any(e[0] in ("w", "run") for e in C.EVENTS):
                report("while frozen, register() of a task that is already in place wrote to containers or ran tasks")
                return
            d = diff_obs(snap, observe(ls.runner, hg.locs))
            if d:
                report("while frozen, after register(<task already in place>): %s" % d)
                return
            continue
        if op[0] in ("refresh", "verify", "cleanup", "clone", "copy_expr_from") or graph_changing(op, pre_shadow):
            if op[0] not in ("refresh", "verify", "cleanup", "clone", "copy_expr_from"):
                hg.shadow = pre_shadow      # the rejected op never happened
            before = {k: canon(v) for k, v in ls.runner.contents().items()}
            if op[0] == "copy_expr_from" and other is None:
                other = P.Runner(hg.world)
                other.exec_op(["set", ["r", gen.I("t0")], ["t", ["bin", "add", ["ref", ["r", gen.I("v0")]], ["lit", 1]]]])
                other.exec_op(["set", ["r", gen.I("n"), gen.I("x")], ["t", ["bin", "mul", ["ref", ["r", gen.I("v1")]], ["lit", 2]]]])
            del C.EVENTS[:]
            exc = None
            try:
                if op[0] == "clone":
                    m.clone()
                elif op[0] == "copy_expr_from":
                    m.copy_expr_from(other.mgr, "r")
                else:
                    ls.runner.exec_op(op)
            except ValueError as e:
                exc = e
            except Exception as e:
                report("frozen %s raised %s instead of ValueError: %s" % (op[0], type(e).__name__, str(e)[:200]))
                return
            must_raise = op[0] not in ("refresh", "verify", "cleanup", "clone")
            if must_raise and exc is None:
                report("graph-changing call %s was accepted while frozen" % (op[:2],))
                return
            if op[0] in ("verify", "cleanup", "clone") and exc is not None:
                report("%s() raised ValueError while frozen: %s" % (op[0], exc))
                return
            if must_raise:
                rejected += 1
                counters["rejected_graph_changes"] = counters.get("rejected_graph_changes", 0) + 1
            after = {k: canon(v) for k, v in ls.runner.contents().items()}
            if after != before:
                report("rejected/neutral call %s changed the data: %s" % (
                    op[0], [(k, before.get(k), after.get(k)) for k in after if before.get(k) != after.get(k)][:3]))
                return
            if any(e[0] in ("w", "run") for e in C.EVENTS):
                report("rejected/neutral call %s wrote to containers or ran tasks: %s" % (op[0], C.EVENTS[:4]))
                return
        else:
            # plain value assignment: must be accepted and must propagate
            r = both(op, exp)
            if r:
                return
            if ls.run_order():
                propagated += 1
            counters["frozen_value_propagations"] = counters.get("frozen_value_propagations", 0) + 1
        d = diff_obs(snap, observe(ls.runner, hg.locs))
        if d:
            report("while frozen, after %s: %s" % (op[0], d))
            return
    counters["histories"] = counters.get("histories", 0) + 1
    if rejected >= 1 and propagated >= 1:
        digests.add(digest([hg.world, log]))
    if len(samples) < 2 and rejected and propagated:
        samples.append({"ops": log[:14], "n_ops": len(log), "rejected": rejected, "propagated_with_runs": propagated})


def same_object_case(counters, digests, violations):
    """While frozen, a plain value is assigned that is the VERY OBJECT the location already holds, after that object
    changed (through the manager under another location that holds the same object, or in place followed by the
    re-assignment that tells the manager about it): the dependants of the assigned location must be updated exactly
    as on a manager that was never frozen.  Item and attribute forms, list / dict / object values."""
    import xdeps

    class Obj:
        pass

    def build(flavour):
        if flavour == "list":
            shared = [1.0, 2.0]
            get0 = lambda r: r[0]
            get1 = lambda r: r[1]
        elif flavour == "dict":
            shared = {"u": 1.0, "v": 2.0}
            get0 = lambda r: r["u"]
            get1 = lambda r: r["v"]
        else:
            shared = Obj()
            shared.u, shared.v = 1.0, 2.0
            get0 = lambda r: r.u
            get1 = lambda r: r.v
        return shared, get0, get1

    for flavour in ("list", "dict", "obj"):
        for form in ("item", "attr"):
            runs = {}
            for frozen in (True, False):
                shared, get0, get1 = build(flavour)
                if form == "item":
                    cont = {"p": shared, "q": shared, "s": 0.0, "t": 0.0}
                else:
                    cont = Obj()
                    cont.p, cont.q, cont.s, cont.t = shared, shared, 0.0, 0.0
                m = xdeps.Manager()
                r = m.ref(cont, "r")
                at = (lambda n: r[n]) if form == "item" else (lambda n: getattr(r, n))
                put = (lambda n, v: r.__setitem__(n, v)) if form == "item" else (lambda n, v: setattr(r, n, v))
                val = (lambda n: cont[n]) if form == "item" else (lambda n: getattr(cont, n))
                put("s", get0(at("q")) * 10 + get1(at("q")))
                put("t", at("s") + 0.5)
                if frozen:
                    m.freeze_tree()
                trace = [(val("s"), val("t"))]
                # (1) the shared object changes through the manager under its OTHER location, then is assigned to q
                if flavour == "list":
                    at("p")[0] = 7.0
                elif flavour == "dict":
                    at("p")["u"] = 7.0
                else:
                    at("p").u = 7.0
                put("q", at("p")._value)
                trace.append((val("s"), val("t")))
                # (2) the object is changed in place and assigned again (the way to tell the manager)
                if flavour == "list":
                    shared[1] = 5.0
                elif flavour == "dict":
                    shared["v"] = 5.0
                else:
                    shared.v = 5.0
                put("q", shared)
                trace.append((val("s"), val("t")))
                # (3) an equal but DIFFERENT object
                import copy
                other = copy.copy(shared)
                if flavour == "list":
                    other[0] = 9.0
                elif flavour == "dict":
                    other["u"] = 9.0
                else:
                    other.u = 9.0
                put("q", other)
                trace.append((val("s"), val("t")))
                runs[frozen] = trace
            want = [(12.0, 12.5), (72.0, 72.5), (75.0, 75.5), (95.0, 95.5)]
            counters["same_object_assignments_checked"] = counters.get("same_object_assignments_checked", 0) + 2
            if runs[True] != runs[False] or runs[False] != want:
                violations.append({"what": "C17 %s value, %s form: assigning the object a location already holds (after it changed) while frozen: "
                                           "dependants (s, t) go through %s, on a never-frozen manager %s, expected %s" % (
                                               flavour, form, runs[True], runs[False], want)})
                return
            digests.add(digest(["same-object", flavour, form]))


def run_shard(spec):
    rng = random.Random("C17:%s:%s" % (spec["seed"], spec["shard"]))
    mgrmon.install_reach_counters()
    mgrmon.install_run_events()
    mgrmon.install_toposort(None, contract_every=1)
    counters, digests, samples, violations, known = {}, set(), [], [], []
    if spec.get("replay"):
        wit = spec["replay"]
        run_history(rng, counters, digests, samples, violations, known, (wit["world"], wit["ops"]))
        return {"evaluations": 1, "digests": [], "samples": [], "counters": counters, "violations": violations, "known": known}
    if spec["shard"] < 2:
        same_object_case(counters, digests, violations)
    for h in range(spec["histories"]):
        mgrmon.set_shuffle_rng(random.Random(rng.random()) if rng.random() < 0.5 else None)
        run_history(rng, counters, digests, samples, violations, known)
        if len(violations) >= 5:
            break
    counters.update({"monitor_" + k: v for k, v in mgrmon.COUNTS.items()})
    counters["anchors_reached"] = dict(mgrmon.REACH)
    return {"evaluations": counters.get("histories", 0), "digests": sorted(digests), "samples": samples,
            "counters": counters, "violations": violations, "known": known}


TEXT = ("Held on every history observed: ~1 800 (quick) / ~80 000 (thorough) histories frozen at a random point; after "
        "each call made while frozen the definitions, index supports, query answers and data are compared with the "
        "freeze-time snapshot / the shadow, graph-changing calls must raise ValueError, value assignments must "
        "propagate, and a never-frozen twin replaying the accepted operations is compared after every operation, "
        "before and after unfreezing. Exploration over sampled histories and call sequences."
        ' While frozen, register() of a task object already in place is refused or changes nothing (index multiplicities included).')
NOTE = ("Trusted: the classification of a call as graph-changing (generator's record of defined locations), the "
        "snapshot observer (dump(), index supports, find_deps/_tasks/_expr per location), the twin.")
TECHNIQUE = "runtime monitoring: freeze-time snapshot invariant re-checked after every call + never-frozen twin execution + shadow value oracle"
